"""Must-fire variants and benign twins for the checker self-test (DESIGN Appendix A, built out).

Each entry edits the *current* source by one textual substitution per file; an entry whose anchor text has
disappeared from the tree is skipped as inapplicable - the self-test is evidence about the checker, not a rule.
"""

VARIANTS = []


def V(name, prop, kind, rule, *edits):
    VARIANTS.append({"name": name, "prop": prop, "kind": kind, "rule": rule, "edits": list(edits)})


# ------------------------------------------------------------------------------------------------ C01
V("c01-int-tagged-double", "C01", "fire", "C01.R3", ("json", 'int: "xsd:int"', 'int: "xsd:double"'))
V("c01-identifier-before-qname", "C01", "fire", "C01.R3",
  ("json", "    elif isinstance(value, QualifiedName):\n        # TODO Manage prefix in the whole structure consistently\n        # TODO QName export\n        return {\"$\": str(value), \"type\": PROV_QUALIFIEDNAME._str}\n    elif isinstance(value, Identifier):\n        return {\"$\": value.uri, \"type\": \"xsd:anyURI\"}",
   "    elif isinstance(value, Identifier):\n        return {\"$\": value.uri, \"type\": \"xsd:anyURI\"}\n    elif isinstance(value, QualifiedName):\n        return {\"$\": str(value), \"type\": PROV_QUALIFIEDNAME._str}"))
V("c01-isinstance-int-float", "C01", "fire", "C01.R3", ("json", "    elif type(value) in LITERAL_XSDTYPE_MAP:\n        return {\"$\": value, \"type\": LITERAL_XSDTYPE_MAP[type(value)]}", "    elif isinstance(value, (int, float)):\n        return {\"$\": value, \"type\": \"xsd:double\"}"))
V("c01-ids-map-from-other-table", "C01", "fire", "C01.R1", ("constants", "(PROV_N_MAP[rec_type_id], rec_type_id) for rec_type_id in PROV_N_MAP\n", "(ADDITIONAL_N_MAP[rec_type_id], rec_type_id) for rec_type_id in ADDITIONAL_N_MAP\n"))
V("c01-lang-read-as-language", "C01", "fire", "C01.R4", ("json", 'langtag = literal["lang"] if "lang" in literal else None', 'langtag = literal["language"] if "language" in literal else None'))
V("c01-time-in-qnames", "C01", "fire", "C01.R2", ("json", "                elif attr in PROV_ATTRIBUTE_LITERALS:\n                    record_json[attr_name] = first(values).isoformat()", "                elif attr in {PROV_ATTR_STARTTIME, PROV_ATTR_ENDTIME}:\n                    record_json[attr_name] = first(values).isoformat()"))
V("c01-anon-prefix", "C01", "fire", "C01.R5", ("json", 'Identifier("_:%s%d" % (local_prefix, self._count))', 'Identifier("_%s%d" % (local_prefix, self._count))'))
V("c01-scope-document", "C01", "fire", "C01.R7", ("json", "    if bundle._namespaces._default:\n        prefixes[\"default\"] = bundle._namespaces._default.uri", "    if bundle.document is not None and bundle.document._namespaces._default:\n        prefixes[\"default\"] = bundle.document._namespaces._default.uri"))
V("c01-twin-dict-comprehension-inverse", "C01", "twin", None, ("constants", "PROV_RECORD_IDS_MAP = dict(\n    (PROV_N_MAP[rec_type_id], rec_type_id) for rec_type_id in PROV_N_MAP\n)", "PROV_RECORD_IDS_MAP = {label: rec_type_id for rec_type_id, label in PROV_N_MAP.items()}"))
V("c01-twin-hoist-key-constants", "C01", "twin", None, ("json", "LITERAL_XSDTYPE_MAP = {", "KEY_LANG = \"lang\"\nLITERAL_XSDTYPE_MAP = {"), ("json", 'langtag = literal["lang"] if "lang" in literal else None', "langtag = literal[KEY_LANG] if KEY_LANG in literal else None"))
V("c01-twin-rename-local", "C01", "twin", None, ("json", "        rec_label = PROV_N_MAP[rec_type]\n", "        kind_key = PROV_N_MAP[rec_type]\n        rec_label = kind_key\n"))

# ------------------------------------------------------------------------------------------------ C02
V("c02-int-tagged-double", "C02", "fire", "C02.R3", ("xml", "                    elif isinstance(value, int):\n                        xsd_type = XSD_INT", "                    elif isinstance(value, int):\n                        xsd_type = XSD_DOUBLE"))
V("c02-int-above-bool", "C02", "fire", "C02.R3", ("xml", "                    if isinstance(value, bool):\n                        xsd_type = XSD_BOOLEAN\n                        v = v.lower()\n                    elif isinstance(value, str):", "                    if isinstance(value, int):\n                        xsd_type = XSD_INT\n                    elif isinstance(value, bool):\n                        xsd_type = XSD_BOOLEAN\n                        v = v.lower()\n                    elif isinstance(value, str):"))
V("c02-float-not-always-typed", "C02", "fire", "C02.R3", ("xml", "                    datetime.datetime,\n                    float,\n                    int,", "                    datetime.datetime,\n                    int,"))
V("c02-drop-person-element", "C02", "fire", "C02.R1", ("constants", '    PROV["Person"]: "person",\n', ""))
V("c10-xsd-with-hash", "C10", "fire", "C10.R2", ("xml", 'uri = uri.rstrip("#")', 'uri = uri.rstrip("/")'))
V("c02-unguarded-relabel", "C02", "fire", "C02.R2", ("xml", "                and PROV_BASE_CLS[value] == rec_type\n", ""))
V("c02-text-unguarded", "C02", "fire", "C02.R4", ("xml", 'text = subel.text if subel.text is not None else ""', "text = subel.text"))
V("c02-twin-int-long", "C02", "twin", None, ("xml", "                    elif isinstance(value, int):\n                        xsd_type = XSD_INT", "                    elif isinstance(value, int):\n                        xsd_type = XSD_LONG"))
V("c02-twin-hoist-always-check", "C02", "twin", None, ("xml", "XML_XSD_URI = \"http://www.w3.org/2001/XMLSchema\"", "XML_XSD_URI = \"http://www.w3.org/2001/XMLSchema\"\nTYPED_KINDS = (bool, datetime.datetime, float, int, prov.identifier.Identifier)"), ("xml", "                    or type(value) in ALWAYS_CHECK", "                    or type(value) in TYPED_KINDS"))
V("c02-twin-text-or-default", "C02", "twin", None, ("xml", 'text = subel.text if subel.text is not None else ""', 'text = subel.text or ""'))
V("c02-twin-relabel-early-continue", "C02", "twin", None, ("xml", "            if (\n                value in PROV_BASE_CLS\n                and PROV_BASE_CLS[value] != value\n                and PROV_BASE_CLS[value] == rec_type\n            ):\n                attributes.remove((key, value))", "            if value not in PROV_BASE_CLS or PROV_BASE_CLS[value] == value:\n                continue\n            if PROV_BASE_CLS[value] != rec_type:\n                continue\n            if True:\n                attributes.remove((key, value))"))

# ------------------------------------------------------------------------------------------------ C03
V("c03-delete-clash-block", "C03", "fire", "C03.R2", ("model", "        if prefix in self:\n            #  Conflicting prefix\n            new_prefix = self._get_unused_prefix(prefix)", "        if False:\n            #  Conflicting prefix\n            new_prefix = self._get_unused_prefix(prefix)"))
V("c03-default-branch-wrong-namespace", "C03", "fire", "C03.R3", ("model", "                    new_qname = dn_namespace[local_part]", "                    new_qname = self._default[local_part]"))
V("c03-foreign-table-write", "C03", "fire", "C03.R1", ("json", "    container = defaultdict(dict)\n    prefixes = {}", "    container = defaultdict(dict)\n    bundle._namespaces.pop(\"tmp\", None)\n    prefixes = {}"))
V("c03-hash-with-prefix", "C03", "fire", "C03.R5", ("identifier", "    def __hash__(self):\n        return hash(self.uri)\n", "    def __hash__(self):\n        return hash((self.uri, self._str))\n"))
V("c03-lossy-strip", "C03", "fire", "C03.R6", ("model", "return namespace[str_value[len(namespace.uri) :]]", 'return namespace[str_value.replace(namespace.uri, "")]'))
V("c03-memo-first", "C03", "fire", "C03.R7", ("model", "            if prefix in self:\n                #  return a new QualifiedName\n                return self[prefix][local_part]\n            if prefix in self._prefix_renamed_map:\n                #  return a new QualifiedName\n                return self._prefix_renamed_map[prefix][local_part]", "            if prefix in self._prefix_renamed_map:\n                #  return a new QualifiedName\n                return self._prefix_renamed_map[prefix][local_part]\n            if prefix in self:\n                #  return a new QualifiedName\n                return self[prefix][local_part]"))
V("c03-twin-rename-uri-map", "C03", "twin", None, ("model", "self._uri_map = dict()", "self._uri_map = {}"))
V("c03-twin-hash-field", "C03", "twin", None, ("identifier", "    def __hash__(self):\n        return hash(self.uri)\n", "    def __hash__(self):\n        return hash(self._uri)\n"))
V("c03-twin-slice-variable", "C03", "twin", None, ("model", "return namespace[str_value[len(namespace.uri) :]]", "offset = len(namespace.uri)\n                        return namespace[str_value[offset:]]"))

# ------------------------------------------------------------------------------------------------ C04
V("c04-ne-with-and", "C04", "fire", "C04.R2", ("identifier", "            not isinstance(other, Namespace)\n            or self._uri != other.uri\n            or self._prefix != other.prefix", "            not isinstance(other, Namespace)\n            or (self._uri != other.uri\n            and self._prefix != other.prefix)"))
V("c04-drop-len-test", "C04", "fire", "C04.R4", ("model", "        if len(this_records) != len(other_records):\n            return False\n", ""))
V("c04-conditional-identifier", "C04", "fire", "C04.R1", ("model", "        if self._identifier != other._identifier:\n            return False\n", "        if self._identifier and not (self._identifier == other._identifier):\n            return False\n"))
V("c04-hash-on-id", "C04", "fire", "C04.R3", ("model", "return hash((self.get_type(), self._identifier, frozenset(self.attributes)))", "return hash((self.get_type(), self._identifier, self._bundle, frozenset(self.attributes)))"))
V("c04-drop-type-compare", "C04", "fire", "C04.R5", ("model", "        if self.get_type() != other.get_type():\n            return False\n", ""))
V("c04-langtag-conditional", "C04", "fire", "C04.R1", ("model", "                and self._langtag == other.langtag\n", "                and (not self._langtag or self._langtag == other.langtag)\n"))
V("c04-compare-equal", "C04", "fire", "C04.R7", ("compare", "return doc1 != doc2", "return doc1 == doc2"))
V("c04-twin-reorder-conjuncts", "C04", "twin", None, ("model", "                self._value == other.value\n                and self._datatype == other.datatype\n                and self._langtag == other.langtag\n", "                self._langtag == other.langtag\n                and self._datatype == other.datatype\n                and self._value == other.value\n"))
V("c04-twin-early-returns", "C04", "twin", None, ("model", "        return (\n            (\n                self._value == other.value\n                and self._datatype == other.datatype\n                and self._langtag == other.langtag\n            )\n            if isinstance(other, Literal)\n            else False\n        )", "        if not isinstance(other, Literal):\n            return False\n        if self._value != other.value:\n            return False\n        return self._datatype == other.datatype and self._langtag == other.langtag"))
V("c04-twin-hash-reordered", "C04", "twin", None, ("model", "return hash((self.get_type(), self._identifier, frozenset(self.attributes)))", "return hash((self._identifier, frozenset(self.attributes), self.get_type()))"))
V("c04-twin-bundles-keys", "C04", "twin", None, ("model", "        if len(self._bundles) != len(other._bundles):\n            return False\n", "        if set(self._bundles) != set(other._bundles):\n            return False\n        if len(self._bundles) != len(other._bundles):\n            return False\n"))

# ------------------------------------------------------------------------------------------------ C05
V("c05-guard-narrowed", "C05", "fire", "C05.R2", ("model", "                    and attr in PROV_ATTRIBUTES\n", "                    and attr in PROV_ATTRIBUTE_QNAMES\n"))
V("c05-xsd-int-float", "C05", "fire", "C05.R4", ("model", "    XSD_INT: int,", "    XSD_INT: float,"))
V("c05-swap-informed", "C05", "fire", "C05.R5", ("model", "{PROV_ATTR_INFORMED: informed, PROV_ATTR_INFORMANT: informant}", "{PROV_ATTR_INFORMED: informant, PROV_ATTR_INFORMANT: informed}"))
V("c05-time-not-forwarded", "C05", "fire", "C05.R6", ("model", "self._bundle.generation(self, activity, time, other_attributes=attributes)", "self._bundle.generation(self, activity, other_attributes=attributes)"))
V("c05-raw-set-time", "C05", "fire", "C05.R1", ("model", "{_ensure_datetime(startTime)}", "{startTime}"))
V("c05-raw-asserted-type", "C05", "fire", "C05.R1", ("model", "self.add_attributes([(PROV_TYPE, type_identifier)])", "self._attributes[PROV_TYPE].add(type_identifier)"))
V("c05-drop-resolver-arm", "C05", "fire", "C05.R3", ("model", "                    value = self._bundle.valid_qualified_name(qname)\n", "                    value = qname\n"))
V("c05-alias-wrong", "C05", "fire", "C05.R6", ("model", "    wasStartedBy = start\n    wasEndedBy = end\n", "    wasStartedBy = end\n    wasEndedBy = start\n"))
V("c05-time-uncoerced-factory", "C05", "fire", "C05.R5", ("model", "                PROV_ATTR_ENTITY: entity,\n                PROV_ATTR_ACTIVITY: activity,\n                PROV_ATTR_TIME: _ensure_datetime(time),\n            },\n            other_attributes,\n        )\n\n    def usage(", "                PROV_ATTR_ENTITY: entity,\n                PROV_ATTR_ACTIVITY: activity,\n                PROV_ATTR_TIME: time,\n            },\n            other_attributes,\n        )\n\n    def usage("))
V("c05-twin-reorder-dict", "C05", "twin", None, ("model", "{PROV_ATTR_INFORMED: informed, PROV_ATTR_INFORMANT: informant}", "{PROV_ATTR_INFORMANT: informant, PROV_ATTR_INFORMED: informed}"))
V("c05-twin-add-short", "C05", "twin", None, ("model", "    XSD_INT: int,", "    XSD_INT: int,\n    XSD_SHORT: int,"))
V("c05-twin-keyword-forwarding", "C05", "twin", None, ("model", "self._bundle.generation(self, activity, time, other_attributes=attributes)", "self._bundle.generation(self, activity=activity, time=time, other_attributes=attributes)"))
V("c05-twin-guard-union", "C05", "twin", None, ("model", "                    and attr in PROV_ATTRIBUTES\n", "                    and attr in (PROV_ATTRIBUTE_QNAMES | PROV_ATTRIBUTE_LITERALS)\n"))

# ------------------------------------------------------------------------------------------------ C06
V("c06-rename-used", "C06", "fire", "C06.R1", ("constants", '    PROV_USAGE: "used",', '    PROV_USAGE: "uses",'))
V("c06-reorder-start-formals", "C06", "fire", "C06.R2", ("model", "        PROV_ATTR_ACTIVITY,\n        PROV_ATTR_TRIGGER,\n        PROV_ATTR_STARTER,\n        PROV_ATTR_TIME,\n    )\n\n    _prov_type = PROV_START", "        PROV_ATTR_ACTIVITY,\n        PROV_ATTR_STARTER,\n        PROV_ATTR_TRIGGER,\n        PROV_ATTR_TIME,\n    )\n\n    _prov_type = PROV_START"))
V("c06-quote-before-backslash", "C06", "fire", "C06.R3", ("model", 's = s.replace("\\\\", "\\\\\\\\").replace(\'"\', \'\\\\"\')', 's = s.replace(\'"\', \'\\\\"\').replace("\\\\", "\\\\\\\\")'))
V("c06-float-g", "C06", "fire", "C06.R4", ("model", "return '\"%r\" %%%% xsd:double' % value", "return '\"%g\" %%%% xsd:double' % value"))
V("c06-float-xsd-float", "C06", "fire", "C06.R4b", ("model", "return '\"%r\" %%%% xsd:double' % value", "return '\"%r\" %%%% xsd:float' % value"))
V("c06-bool-after-int", "C06", "fire", "C06.R5", ("model", "    elif isinstance(value, float):\n        return '\"%r\" %%%% xsd:double' % value\n    elif isinstance(value, bool):", "    elif isinstance(value, float):\n        return '\"%r\" %%%% xsd:double' % value\n    elif isinstance(value, int):\n        return '\"%d\" %%%% xsd:int' % value\n    elif isinstance(value, bool):"))
V("c06-enddoc", "C06", "fire", "C06.R6", ("model", '"endDocument" if self.is_document() else "endBundle"', '"endDoc" if self.is_document() else "endBundle"'))
V("c06-lru-cache", "C06", "fire", "C06.R7", ("model", "def encoding_provn_value(value):", "import functools\n\n\n@functools.lru_cache(maxsize=128)\ndef encoding_provn_value(value):"))
V("c06-twin-repr-call", "C06", "twin", None, ("model", "return '\"%r\" %%%% xsd:double' % value", "return '\"%s\" %%%% xsd:double' % repr(value)"))
V("c06-twin-typed-cache", "C06", "twin", None, ("model", "def encoding_provn_value(value):", "import functools\n\n\n@functools.lru_cache(maxsize=128, typed=True)\ndef encoding_provn_value(value):"))

# ------------------------------------------------------------------------------------------------ C07
V("c07-end-maps-start", "C07", "fire", "C07.R1", ("rdf", 'URIRef(PROV["wasEndedBy"].uri): "end",', 'URIRef(PROV["wasEndedBy"].uri): "start",'))
V("c07-drop-attime", "C07", "fire", "C07.R2", ("rdf", '    URIRef(PROV["atTime"].uri): PROV_ATTR_TIME,\n', ""))
V("c07-int-double", "C07", "fire", "C07.R3", ("rdf", '    int: XSD["int"],', '    int: XSD["double"],'))
V("c07-truthiness", "C07", "fire", "C07.R5", ("rdf", "                        if value is not None and attr not in used_objects:", "                        if value and attr not in used_objects:"))
V("c07-twin-reorder-mapper", "C07", "twin", None, ("rdf", '    URIRef(PROV["wasEndedBy"].uri): "end",\n    URIRef(PROV["wasStartedBy"].uri): "start",', '    URIRef(PROV["wasStartedBy"].uri): "start",\n    URIRef(PROV["wasEndedBy"].uri): "end",'))

# ------------------------------------------------------------------------------------------------ C08
V("c08-merge-in-place", "C08", "fire", None, ("model", "                merged = scratch.new_record(\n                    records[0].get_type(), records[0].identifier, records[0].attributes\n                )", "                merged = records[0]"))
V("c08-group-by-identifier", "C08", "fire", "C08.R2", ("model", "records_by_type_and_id[(record.get_type(), identifier)].append(record)", "records_by_type_and_id[identifier].append(record)"))
V("c08-filter-empty-bundles", "C08", "fire", "C08.R4", ("model", "        for bundle in self.bundles:\n            unified_bundle = bundle.unified()\n            document.add_bundle(unified_bundle)", "        for bundle in self.bundles:\n            unified_bundle = bundle.unified()\n            if not unified_bundle.records:\n                continue\n            document.add_bundle(unified_bundle)"))
V("c08-share-manager", "C08", "fire", None, ("model", "        document = ProvDocument(namespaces=self.namespaces)\n", "        document = ProvDocument(namespaces=self.namespaces)\n        document._namespaces = self._namespaces\n"))
V("c08-twin-rename", "C08", "twin", None, ("model", "        added_merged_records = set()\n        unified_records = list()", "        added_merged_records = set()\n        unified_records = []"))

# ------------------------------------------------------------------------------------------------ C09
V("c09-dedupe-filter", "C09", "fire", "C09.R1", ("model", "            for record in other.get_records():\n                self.add_record(record)\n        else:\n            raise ProvException(\n                \"ProvBundle.update()", "            for record in other.get_records():\n                if record in self._records:\n                    continue\n                self.add_record(record)\n        else:\n            raise ProvException(\n                \"ProvBundle.update()"))
V("c09-omit-extra-attributes", "C09", "fire", "C09.R2", ("model", "            record.formal_attributes,\n            record.extra_attributes,\n", "            record.formal_attributes,\n"))
V("c09-store-before-check", "C09", "fire", "C09.R3", ("model", "        if valid_id in self._bundles:\n            raise ProvException(\"A bundle with that identifier already exists\")\n\n        self._bundles[valid_id] = bundle\n        bundle._document = self", "        previous = self._bundles.get(valid_id)\n        self._bundles[valid_id] = bundle\n        if previous is not None:\n            raise ProvException(\"A bundle with that identifier already exists\")\n\n        bundle._document = self"))
V("c09-clear-other", "C09", "fire", "C09.R4", ("model", "            for record in other.get_records():\n                self.add_record(record)\n            if other.has_bundles():", "            for record in other.get_records():\n                self.add_record(record)\n            other._records.clear()\n            if other.has_bundles():"))
V("c09-adopt-bundle", "C09", "fire", None, ("model", "                        new_bundle = self.bundle(bundle.identifier)\n                        new_bundle.update(bundle)", "                        self.add_bundle(bundle)"))
V("c09-twin-explicit-loop", "C09", "twin", None, ("model", "            bundled_records = itertools.chain(\n                *[b.get_records() for b in self._bundles.values()]\n            )", "            bundled_records = []\n            for b in self._bundles.values():\n                bundled_records.extend(b.get_records())"))

# ------------------------------------------------------------------------------------------------ C10
V("c10-swap-informed-definitions", "C10", "fire", "C10.R4", ("constants", 'PROV_ATTR_INFORMED = PROV["informed"]\nPROV_ATTR_INFORMANT = PROV["informant"]', 'PROV_ATTR_INFORMED = PROV["informant"]\nPROV_ATTR_INFORMANT = PROV["informed"]'))
V("c10-bundlecontent-renamed", "C10", "fire", "C10.R2", ("xml", 'element, _ns_prov("bundleContent"), nsmap=nsmap', 'element, _ns_prov("bundle"), nsmap=nsmap'))
V("c10-plan-is-agent", "C10", "fire", "C10.R2", ("constants", '    PROV["Plan"]: PROV_ENTITY,', '    PROV["Plan"]: PROV_AGENT,'))
V("c10-child-order", "C10", "fire", "C10.R3", ("model", "order.extend([PROV_LABEL, PROV_LOCATION, PROV_ROLE, PROV_TYPE, PROV_VALUE])", "order.extend([PROV_LABEL, PROV_TYPE, PROV_LOCATION, PROV_ROLE, PROV_VALUE])"))
V("c10-default-key-renamed", "C10", "fire", "C10.R1", ("json", 'prefixes["default"] = bundle._namespaces._default.uri', 'prefixes["$default"] = bundle._namespaces._default.uri'), ("json", 'if prefix != "default":', 'if prefix != "$default":'))
V("c10-twin-reorder-table", "C10", "twin", None, ("constants", '    PROV["Person"]: "person",\n    PROV["Organization"]: "organization",', '    PROV["Organization"]: "organization",\n    PROV["Person"]: "person",'))

# ------------------------------------------------------------------------------------------------ C11
V("c11-stale-v", "C11", "fire", "C11.R1", ("xml", "        # The text is the value unless a recognised attribute says otherwise.\n        _v = text\n", ""))
V("c11-stale-membership", "C11", "fire", "C11.R1", ("json", "            for element in elements:\n                attributes = dict()\n                other_attributes = []\n                # this is for the multiple-entity membership hack to come\n                membership_extra_members = None\n", "            membership_extra_members = None\n            for element in elements:\n                attributes = dict()\n                other_attributes = []\n"))
V("c11-drop-list-check", "C11", "fire", "C11.R4", ("json", "                        if isinstance(values, list):\n                            other_attributes.extend(\n                                (attr, decode_json_representation(value, bundle))\n                                for value in values\n                            )\n                        else:\n                            # single value\n                            other_attributes.append(\n                                (attr, decode_json_representation(values, bundle))\n                            )", "                        other_attributes.append(\n                            (attr, decode_json_representation(values, bundle))\n                        )"))
V("c11-xml-int-double", "C11", "fire", "C11.R5", ("xml", "                    elif isinstance(value, int):\n                        xsd_type = XSD_INT", "                    elif isinstance(value, int):\n                        xsd_type = XSD_DOUBLE"))
V("c11-twin-init-at-loop-head", "C11", "twin", None, ("xml", "        sqname = etree.QName(subel)\n", "        _v = None\n        sqname = etree.QName(subel)\n"))

# ------------------------------------------------------------------------------------------------ C12
V("c12-share-manager", "C12", "fire", "C12.R1", ("model", "        document = ProvDocument(namespaces=self.namespaces)\n", "        document = ProvDocument(namespaces=self.namespaces)\n        document._namespaces = self._namespaces\n"))
V("c12-reparent-record", "C12", "fire", "C12.R2", ("model", "        return self.new_record(\n            record.get_type(),\n            record.identifier,\n            record.formal_attributes,\n            record.extra_attributes,\n        )", "        self._add_record(record)\n        return record"))
V("c12-unified-returns-self", "C12", "fire", "C12.R3", ("model", "        unified_records = self._unified_records()\n        bundle = ProvBundle(records=unified_records, identifier=self.identifier)\n        return bundle", "        unified_records = self._unified_records()\n        if len(unified_records) == len(self._records):\n            return self\n        bundle = ProvBundle(records=unified_records, identifier=self.identifier)\n        return bundle"))
V("c12-shared-sets", "C12", "fire", "C12.R1", ("model", "        return PROV_REC_CLS[self.get_type()](\n            self._bundle, self.identifier, self.attributes\n        )", "        record = PROV_REC_CLS[self.get_type()](self._bundle, self.identifier)\n        record._attributes.update(self._attributes)\n        return record"))
V("c12-twin-fresh-manager", "C12", "twin", None, ("model", "            new_bundle = ProvBundle(namespaces=bundle.namespaces)\n", "            new_bundle = ProvBundle(namespaces=list(bundle.namespaces))\n"))

# ------------------------------------------------------------------------------------------------ C13
V("c13-xml-writer-adds-type", "C13", "fire", "C13.R1", ("xml", "            rec_label = self._derive_record_label(rec_type, attributes)\n", "            rec_label = self._derive_record_label(rec_type, attributes)\n            record.add_asserted_type(PROV[\"Entity\"])\n"))
V("c13-rdf-writer-registers-namespace", "C13", "fire", "C13.R1", ("rdf", "        for namespace in bundle.namespaces:\n            container.bind(namespace.prefix, namespace.uri)\n", "        for namespace in bundle.namespaces:\n            container.bind(namespace.prefix, namespace.uri)\n        bundle.add_namespace(\"rdfexport\", \"http://example.org/rdfexport#\")\n"))
V("c13-style-not-copied", "C13", "fire", "C13.R2", ("dot", "                style = dict(style)  # copy the style\n", ""))
V("c13-drop-empty-skip", "C13", "fire", "C13.R3", ("json", "                if not values:\n                    continue\n", ""))
V("c13-module-level-generator", "C13", "fire", "C13.R4", ("json", "    id_generator = AnonymousIDGenerator()\n\n    def real_or_anon_id(r):", "    id_generator = _SHARED_IDS\n\n    def real_or_anon_id(r):"), ("json", "# Reverse map for prov.model.XSD_DATATYPE_PARSERS", "_SHARED_IDS = AnonymousIDGenerator()\n\n# Reverse map for prov.model.XSD_DATATYPE_PARSERS"))
V("c13-eq-resolves-names", "C13", "fire", "C13.R1", ("model", "        other_records = set(other.get_records())\n        this_records = set(self.get_records())", "        other_records = set(other.get_records())\n        this_records = set(self.get_records())\n        self.add_namespace(\"cmp\", \"http://example.org/cmp#\")"))
V("c13-twin-style-unpack", "C13", "twin", None, ("dot", "                style = dict(style)  # copy the style\n", "                style = {**style}  # copy the style\n"))
V("c13-twin-len-zero", "C13", "twin", None, ("json", "                if not values:\n                    continue\n", "                if len(values) == 0:\n                    continue\n"))

# ------------------------------------------------------------------------------------------------ C14
V("c14-delete-trigger-row", "C14", "fire", "C14.R1", ("graph", "    PROV_ATTR_TRIGGER: ProvEntity,\n", ""))
V("c14-sentinel-document", "C14", "fire", "C14.R2", ("graph", "node_map[qn1] = INFERRED_ELEMENT_CLASS[attr_pair_1[0]](None, qn1)", "node_map[qn1] = INFERRED_ELEMENT_CLASS[attr_pair_1[0]](unified, qn1)"))
V("c14-swap-edge", "C14", "fire", "C14.R3", ("graph", "g.add_edge(node_map[qn1], node_map[qn2], relation=relation)", "g.add_edge(node_map[qn2], node_map[qn1], relation=relation)"))
V("c14-skip-unified", "C14", "fire", "C14.R4", ("graph", "    unified = prov_document.unified()\n", "    unified = prov_document if len(prov_document.get_records()) < 2 else prov_document.unified()\n"))
V("c14-twin-rename-qn", "C14", "twin", None, ("graph", "        qn1, qn2 = attr_pair_1[1], attr_pair_2[1]\n", "        qn1 = attr_pair_1[1]\n        qn2 = attr_pair_2[1]\n"))

# ------------------------------------------------------------------------------------------------ C15
V("c15-raw-label", "C15", "fire", "C15.R1", ("dot", "node_label = _quoted(record.label)", "node_label = '\"%s\"' % record.label"))
V("c15-html-unescaped", "C15", "fire", "C15.R1", ("dot", 'f"<{escape(str(record.label))}<br />"', 'f"<{record.label}<br />"'))
V("c15-quoter-fast-path", "C15", "fire", "C15.R1", ("dot", "    return '\"%s\"' % str(value).replace(\"\\\\\", \"\\\\\\\\\").replace('\"', '\\\\\"')", "    text = str(value)\n    if '\"' in text:\n        text = text.replace(\"\\\\\", \"\\\\\\\\\").replace('\"', '\\\\\"')\n    return '\"%s\"' % text"))
V("c15-delete-style-row", "C15", "fire", "C15.R2", ("dot", '    PROV_MENTION: {"label": "mentionOf", "fontsize": "10.0"},\n', ""))
V("c15-extra-attributes", "C15", "fire", "C15.R4", ("dot", "            other_attributes = [\n                (attr_name, value)\n                for attr_name, value in rec.attributes\n                if attr_name not in PROV_ATTRIBUTE_QNAMES\n            ]", "            other_attributes = rec.extra_attributes"))
V("c15-twin-escape-helper", "C15", "twin", None, ("dot", 'f"<{escape(str(record.label))}<br />"', 'f"<{escape(str(record.label), quote=True)}<br />"'))

# ------------------------------------------------------------------------------------------------ C16
V("c16-stream-not-buffered", "C16", "fire", "C16.R1", ("init", "        content = source.read()\n        source = None\n", "        content = None\n"))
V("c16-provn-no-discrimination", "C16", "fire", "C16.R2", ("provn", "        if not isinstance(stream, io.TextIOBase):\n            provn_content = provn_content.encode(\"utf-8\")\n", ""))
V("c16-open-text", "C16", "fire", "C16.R4", ("model", 'with open(source, "rb") as f:', "with open(source) as f:"))
V("c16-latin1", "C16", "fire", "C16.R2", ("json", 'stream.write(buf.read().encode("utf-8"))', 'stream.write(buf.read().encode("latin-1"))'))
V("c16-registry-drop-xml", "C16", "fire", "C16.R3", ("sinit", '            "xml": ProvXMLSerializer,\n', ""))
V("c16-twin-explicit-utf8-open", "C16", "twin", None, ("model", 'with open(source, "rb") as f:', 'with open(source, mode="rb") as f:'))

# ------------------------------------------------------------------------------------------------ C17
V("c17-urlparse-path", "C17", "fire", "C17.R1", ("model", "                path = location\n", "                pass\n"))
V("c17-move-in-finally", "C17", "fire", "C17.R2", ("model", "            serializer.serialize(stream, **args)\n            stream.close()\n            if hasattr(shutil, \"move\"):\n                shutil.move(name, path)\n            else:\n                shutil.copy(name, path)\n                os.remove(name)", "            try:\n                serializer.serialize(stream, **args)\n            finally:\n                stream.close()\n                shutil.move(name, path)"))
V("c17-open-destination", "C17", "fire", "C17.R3", ("model", "            fd, name = tempfile.mkstemp()\n            stream = os.fdopen(fd, \"wb\")", "            open(path, \"wb\").close()\n            fd, name = tempfile.mkstemp()\n            stream = os.fdopen(fd, \"wb\")"))
V("c17-twin-os-replace", "C17", "twin", None, ("model", "            if hasattr(shutil, \"move\"):\n                shutil.move(name, path)\n            else:\n                shutil.copy(name, path)\n                os.remove(name)", "            shutil.move(name, path)"))

# ------------------------------------------------------------------------------------------------ C18
V("c18-extend-in-update", "C18", "fire", "C18.R1", ("model", "            for record in other.get_records():\n                self.add_record(record)\n        else:\n            raise ProvException(\n                \"ProvBundle.update()", "            self._records.extend(other.get_records())\n        else:\n            raise ProvException(\n                \"ProvBundle.update()"))
V("c18-return-before-append", "C18", "fire", "C18.R2", ("model", "        if identifier is not None:\n            self._id_map[identifier].append(record)\n        self._records.append(record)", "        if identifier is not None:\n            self._id_map[identifier].append(record)\n            return\n        self._records.append(record)"))
V("c18-early-return-new-record", "C18", "fire", "C18.R3", ("model", "        self._add_record(new_record)\n        return new_record", "        if record_type is not None:\n            self._add_record(new_record)\n        return new_record"))
V("c18-return-internal-list", "C18", "fire", "C18.R4", ("model", "        return list(self._records)\n\n    #  Bundle configurations", "        return self._records\n\n    #  Bundle configurations"))
V("c18-lookup-not-normalised", "C18", "fire", "C18.R5", ("model", "            return self._id_map[valid_id]\n", "            return self._id_map[identifier]\n"))
V("c18-twin-reorder-appends", "C18", "twin", None, ("model", "        if identifier is not None:\n            self._id_map[identifier].append(record)\n        self._records.append(record)", "        self._records.append(record)\n        if identifier is not None:\n            self._id_map[identifier].append(record)"))
V("c18-twin-slice-copy", "C18", "twin", None, ("model", "        return list(self._records)\n\n    #  Bundle configurations", "        return self._records[:]\n\n    #  Bundle configurations"))
V("c18-twin-setdefault", "C18", "twin", None, ("model", "            self._id_map[identifier].append(record)\n        self._records.append(record)", "            self._id_map.setdefault(identifier, []).append(record)\n        self._records.append(record)"))

# ------------------------------------------------------------------------------------------------ round-2 seed rules
V("c12-shallow-map-copy", "C12", "fire", "C12.R1", ("model", "        return PROV_REC_CLS[self.get_type()](\n            self._bundle, self.identifier, self.attributes\n        )", "        record = PROV_REC_CLS[self.get_type()](self._bundle, self.identifier)\n        record._attributes = self._attributes.copy()\n        return record"))
V("c12-twin-deep-map-copy", "C12", "twin", None, ("model", "        return PROV_REC_CLS[self.get_type()](\n            self._bundle, self.identifier, self.attributes\n        )", "        record = PROV_REC_CLS[self.get_type()](self._bundle, self.identifier)\n        record._attributes = defaultdict(set, {k: set(v) for k, v in self._attributes.items()})\n        return record"))
V("c12-unified-keeps-source-bundle", "C12", "fire", "C12.R5", ("model", "            unified_bundle = bundle.unified()\n            document.add_bundle(unified_bundle)", "            unified_bundle = bundle.unified() if len(bundle) > 1 else bundle\n            document.add_bundle(unified_bundle)"))
V("c12-twin-unified-inline", "C12", "twin", None, ("model", "            unified_bundle = bundle.unified()\n            document.add_bundle(unified_bundle)", "            document.add_bundle(bundle.unified())"))
V("c13-membership-as-presence", "C13", "fire", "C13.R3", ("model", "            if attr in self._attributes and self._attributes[attr]:\n                # Formal attributes always have single values", "            if attr in self._attributes:\n                # Formal attributes always have single values"))
V("c13-twin-membership-len", "C13", "twin", None, ("model", "            if attr in self._attributes and self._attributes[attr]:\n                # Formal attributes always have single values", "            if attr in self._attributes and len(self._attributes[attr]) > 0:\n                # Formal attributes always have single values"))
V("c13-closure-mints-on-document", "C13", "fire", "C13.R1", ("json", "        return r._identifier if r._identifier else id_generator.get_anon_id(r)", "        return r._identifier if r._identifier else bundle._namespaces.get_anonymous_identifier()"))
V("c16-move-inside-with", "C16", "fire", "C16.R5", ("model", "            stream = os.fdopen(fd, \"wb\")\n            serializer.serialize(stream, **args)\n            stream.close()\n            if hasattr(shutil, \"move\"):\n                shutil.move(name, path)", "            with os.fdopen(fd, \"wb\") as stream:\n                serializer.serialize(stream, **args)\n                shutil.move(name, path)\n            if False:\n                pass"))
V("c16-twin-with-then-move", "C16", "twin", None, ("model", "            stream = os.fdopen(fd, \"wb\")\n            serializer.serialize(stream, **args)\n            stream.close()\n", "            with os.fdopen(fd, \"wb\") as stream:\n                serializer.serialize(stream, **args)\n"))
V("c17-twin-with-then-move", "C17", "twin", None, ("model", "            stream = os.fdopen(fd, \"wb\")\n            serializer.serialize(stream, **args)\n            stream.close()\n", "            with os.fdopen(fd, \"wb\") as stream:\n                serializer.serialize(stream, **args)\n"))
V("c15-saxutils-escape-attr", "C15", "fire", "C15.R1", ("dot", "from html import escape", "from xml.sax.saxutils import escape"))
