"""Thorough tier, part (b): the checker's own two-way test on scratch copies of the *current* tree.

Every variant is a small edit of one source file.  `fire` variants break a rule instance and must be
reported by the named rule; `twin` variants preserve behaviour and must leave the property's check silent
(exit 0).  A variant whose anchor text is not present in the current tree is `inapplicable` (skipped).
Scratch copies live under a fresh tempfile.mkdtemp() outside /repo and /verif and are removed afterwards.
Outcomes are evidence, never verdicts: they do not change the exit status of the check (DESIGN section 6).
"""
from __future__ import annotations

import os
import shutil
import tempfile
from concurrent.futures import ProcessPoolExecutor

FILES = {
    "model": "src/prov/model.py", "constants": "src/prov/constants.py", "identifier": "src/prov/identifier.py", "init": "src/prov/__init__.py",
    "json": "src/prov/serializers/provjson.py", "xml": "src/prov/serializers/provxml.py", "rdf": "src/prov/serializers/provrdf.py",
    "provn": "src/prov/serializers/provn.py", "dot": "src/prov/dot.py", "graph": "src/prov/graph.py", "sinit": "src/prov/serializers/__init__.py",
    "compare": "scripts/prov-compare",
}


def copy_tree(repo, dst):
    for rel in ("src/prov", "scripts"):
        s = os.path.join(repo, rel)
        d = os.path.join(dst, rel)
        shutil.copytree(s, d, ignore=shutil.ignore_patterns("tests", "__pycache__", "*.pyc"))


def run_variant(args):
    repo, base, v = args
    name, prop, kind, rule, edits = v["name"], v["prop"], v["kind"], v.get("rule"), v["edits"]
    d = os.path.join(base, name)
    try:
        copy_tree(repo, d)
        for fkey, old, new in edits:
            p = os.path.join(d, FILES[fkey])
            with open(p, encoding="utf-8") as fh:
                text = fh.read()
            if text.count(old) < 1:
                return name, prop, kind, "inapplicable", "anchor text not in %s" % FILES[fkey]
            text = text.replace(old, new, 1)
            try:
                compile(text, p, "exec")
            except SyntaxError as e:
                return name, prop, kind, "inapplicable", "variant does not compile: %s" % e
            with open(p, "w", encoding="utf-8") as fh:
                fh.write(text)
        from .check import run_property

        code, findings, _ = run_property(prop, "quick", d, evidence_dir=os.path.join(d, "ev"), quiet=True, write=False)
        rules = sorted({f.rule for f in findings})
        from .report import load_known

        known = load_known()[0].get(prop, {})
        unlisted = [f for f in findings if f.key not in known]
        if kind == "fire":
            hit = [f for f in unlisted if rule is None or f.rule == rule or f.rule.startswith(rule)]
            if code == 2:
                return name, prop, kind, "analysis-error", "exit 2"
            return name, prop, kind, ("ok" if hit else "MISSED"), "reported by %s" % sorted({f.rule for f in unlisted})
        else:
            if code == 2:
                return name, prop, kind, "analysis-error", "exit 2"
            return name, prop, kind, ("ok" if not unlisted else "FALSE-ALARM"), "reported by %s" % sorted({f.key for f in unlisted})[:2]
    except Exception as e:  # pragma: no cover
        return name, prop, kind, "error", "%s: %s" % (type(e).__name__, e)
    finally:
        shutil.rmtree(d, ignore_errors=True)


def run(repo, prop=None, jobs=16):
    from .selftest_variants import VARIANTS

    vs = [v for v in VARIANTS if prop is None or v["prop"] == prop]
    base = tempfile.mkdtemp(prefix="sa-selftest.")
    try:
        with ProcessPoolExecutor(max_workers=min(jobs, max(1, len(vs)))) as ex:
            results = list(ex.map(run_variant, [(repo, base, v) for v in vs]))
    finally:
        shutil.rmtree(base, ignore_errors=True)
    return results


def summarise(results):
    out = {"fire_ok": 0, "fire_total": 0, "twin_ok": 0, "twin_total": 0, "inapplicable": 0, "problems": []}
    for name, prop, kind, status, detail in results:
        if status == "inapplicable":
            out["inapplicable"] += 1
            continue
        key = "fire" if kind == "fire" else "twin"
        out[key + "_total"] += 1
        if status == "ok":
            out[key + "_ok"] += 1
        else:
            out["problems"].append("%s (%s %s): %s %s" % (name, prop, kind, status, detail))
    return out


if __name__ == "__main__":
    import sys

    res = run(sys.argv[1] if len(sys.argv) > 1 else "/repo", sys.argv[2] if len(sys.argv) > 2 else None)
    for r in sorted(res):
        print("%-46s %-4s %-5s %-14s %s" % r)
    print(summarise(res))
