"""Thorough tier = quick rules + (a) whole-API audit with the same engines + (b) checker self-test (sa/selftest.py).
Everything here is reported as NOTE lines and evidence; it never changes the exit status."""
from __future__ import annotations

import ast

from .ctx import Ctx, call_name, calls_in, walk_function
from .effects import base_of, get_effects
from .loader import norm


def api_audit(ctx: Ctx, emit, prop):
    eff = get_effects(ctx)
    out = {"methods_audited": 0, "readonly_named_with_effects": [], "dispatch_chains": 0, "shadowed_arms": [], "optional_results_dereferenced": []}
    # (1) effect class of every public method of the model / identifier / serializer classes
    table = {}
    for q, fi in ctx.p.functions.items():
        if not fi.cls or fi.module.startswith("scripts."):
            continue
        s = eff.sum[q]
        classes = sorted({e[1] for e in s.effects if base_of(e[0]) in ("self",) or base_of(e[0]) in fi.params})
        table[q] = classes
        out["methods_audited"] += 1
        ro = fi.is_property or fi.name.startswith(("get_", "is_", "has_", "__repr__", "__str__", "__eq__", "__ne__", "__hash__")) or fi.name in ("records", "namespaces", "bundles")
        hard = [c for c in classes if c in ("CONTENT", "NS", "NS-RESOLVE", "LINK", "GLOBAL-TABLE", "OTHER")]
        if ro and hard:
            out["readonly_named_with_effects"].append("%s: %s" % (q, hard))
    for x in out["readonly_named_with_effects"]:
        emit("NOTE: property=%s audit: read-only-looking method with effects: %s" % (prop, x))
    # (2) every isinstance chain in the package: arms shadowed by an earlier superclass test
    from .rules.dispatch import chain_from_if, shadowed
    from .loader import AnalysisError

    for q, fi in ctx.p.functions.items():
        if fi.module.startswith("scripts.") or isinstance(fi.node, ast.Lambda):
            continue
        subjects = set()
        for n in walk_function(fi.node):
            if isinstance(n, ast.Call) and call_name(n) == "isinstance" and len(n.args) == 2 and isinstance(n.args[0], ast.Name):
                subjects.add(n.args[0].id)
        for subj in subjects:
            for n in walk_function(fi.node):
                if isinstance(n, ast.If):
                    try:
                        arms = chain_from_if(ctx, q, n, subj)
                    except AnalysisError:
                        continue
                    if sum(1 for a in arms if a.mode == "isinstance") >= 2:
                        out["dispatch_chains"] += 1
                        for b, a, kb in shadowed(arms):
                            out["shadowed_arms"].append("%s: %r after %r" % (q, b, a))
    for x in sorted(set(out["shadowed_arms"])):
        emit("NOTE: property=%s audit: shadowed dispatch arm: %s" % (prop, x))
    out["shadowed_arms"] = sorted(set(out["shadowed_arms"]))
    # (3) results of functions that return None on failure, dereferenced without a test
    OPTIONAL = {"valid_qualified_name", "parse_xsd_datetime", "parse_boolean", "parse_xsd_types", "first", "get_namespace", "get_default_namespace", "qname"}
    for q, fi in ctx.p.functions.items():
        if fi.module.startswith("scripts.") or isinstance(fi.node, ast.Lambda):
            continue
        for n in walk_function(fi.node):
            if isinstance(n, (ast.Attribute, ast.Subscript)) and isinstance(n.value, ast.Call) and call_name(n.value) in OPTIONAL:
                out["optional_results_dereferenced"].append("%s: %s" % (q, norm(n)[:60]))
    for x in out["optional_results_dereferenced"]:
        emit("NOTE: property=%s audit: Optional result used without a None test: %s" % (prop, x))
    out["effect_table_sample"] = dict(list(sorted(table.items()))[:25])
    return out


def make(prop):
    def fn(ctx: Ctx, emit):
        from . import selftest

        results = selftest.run(ctx.repo, prop)
        summ = selftest.summarise(results)
        for p in summ["problems"]:
            emit("NOTE: property=%s SELFTEST %s" % (prop, p))
        emit("NOTE: property=%s self-test: %d/%d must-fire variants reported, %d/%d benign twins silent, %d inapplicable on this tree"
             % (prop, summ["fire_ok"], summ["fire_total"], summ["twin_ok"], summ["twin_total"], summ["inapplicable"]))
        audit = api_audit(ctx, emit, prop)
        return {"selftest": summ, "selftest_cases": [{"variant": r[0], "kind": r[2], "status": r[3], "detail": r[4]} for r in sorted(results)], "api_audit": audit}

    return fn
