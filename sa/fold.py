"""E2 - constant folder over a symbolic value domain.

Evaluates module-level statements (and, on request, straight-line assignments inside
a function) without importing anything.  Namespace / QualifiedName are modelled
symbolically; the model is validated against identifier.py by `validate_identifier_model`.
Anything that cannot be folded is `UNKNOWN`; a rule that needs such a cell must raise
AnalysisError (contract 1.2-5), never report a violation.
"""
from __future__ import annotations

import ast
from dataclasses import dataclass
from typing import Any, Dict, Optional

from .loader import AnalysisError, Program, dotted, norm


class _Unknown:
    def __init__(self, why=""):
        self.why = why

    def __repr__(self):
        return "UNKNOWN(%s)" % self.why

    def __bool__(self):
        raise AnalysisError("truth value of UNKNOWN (%s)" % self.why)


UNKNOWN = _Unknown()


class _Return(Exception):
    def __init__(self, value):
        self.value = value


def unk(why):
    return _Unknown(why)


def is_unknown(v):
    return isinstance(v, _Unknown)


@dataclass(frozen=True)
class NS:
    prefix: str
    uri: str

    def __repr__(self):
        return "NS(%s=%s)" % (self.prefix, self.uri)


class QN:
    """Symbolic QualifiedName: identity is the URI (as in identifier.py, checked by C03.R5)."""

    __slots__ = ("ns", "local")

    def __init__(self, ns: NS, local: str):
        self.ns = ns
        self.local = local

    @property
    def uri(self):
        return self.ns.uri + self.local

    @property
    def s(self):
        return (self.ns.prefix + ":" + self.local) if self.ns.prefix else self.local

    def __eq__(self, o):
        return isinstance(o, QN) and o.uri == self.uri

    def __hash__(self):
        return hash(("QN", self.uri))

    def __repr__(self):
        return "QN(%s)" % self.s


@dataclass(frozen=True)
class Ext:
    """A builtin / third-party object, by dotted name (float, datetime.datetime, rdflib...RDFS.label)."""

    name: str

    def __repr__(self):
        return "Ext(%s)" % self.name


@dataclass(frozen=True)
class ExtCall:
    func: str
    args: tuple

    def __repr__(self):
        return "%s(%s)" % (self.func, ", ".join(map(repr, self.args)))


@dataclass(frozen=True)
class ClassRef:
    qual: str


@dataclass(frozen=True)
class FuncRef:
    qual: str


@dataclass(frozen=True)
class ModRef:
    name: str


BUILTIN_NAMES = {
    "str", "int", "float", "bool", "dict", "list", "set", "tuple", "frozenset", "len", "object",
    "bytes", "type", "isinstance", "sorted", "map", "filter", "zip", "enumerate", "range", "repr",
    "hasattr", "getattr", "Exception", "Warning", "ValueError", "TypeError", "KeyError",
    "NotImplementedError", "AttributeError", "UserWarning", "print", "open", "iter", "next", "max",
    "min", "super", "staticmethod", "property", "hash", "id", "any", "all",
}

NAMESPACE_CLS = "prov.identifier.Namespace"
QNAME_CLS = "prov.identifier.QualifiedName"
IDENT_CLS = "prov.identifier.Identifier"


def hashable(v):
    try:
        hash(v)
        return True
    except TypeError:
        return False


class Folder:
    def __init__(self, program: Program):
        self.p = program
        self._envs: Dict[str, Dict[str, Any]] = {}
        self._in_progress = set()

    # ----------------------------------------------------------- module environments
    def module_env(self, modname: str) -> Dict[str, Any]:
        if modname in self._envs:
            return self._envs[modname]
        if modname in self._in_progress:  # import cycle (prov <-> prov.model): names resolve lazily
            return {}
        self._in_progress.add(modname)
        env: Dict[str, Any] = {}
        self._envs[modname] = env
        unit = self.p.units[modname]
        try:
            self._exec_block(unit.tree.body, env, modname, toplevel=True)
        except _Return:
            pass
        self._in_progress.discard(modname)
        return env

    def lookup(self, modname: str, name: str, env: Optional[dict] = None):
        if env is not None and name in env:
            return env[name]
        menv = self.module_env(modname)
        if name in menv:
            return menv[name]
        r = self.p.resolve_name(modname, name)
        if r is not None:
            return self._binding_value(r)
        if name in BUILTIN_NAMES:
            return Ext(name)
        if name in ("True", "False", "None"):
            return {"True": True, "False": False, "None": None}[name]
        return unk("name %s in %s" % (name, modname))

    def _binding_value(self, r):
        k = r[0]
        if k == "class":
            return ClassRef(r[1])
        if k == "func":
            return FuncRef(r[1])
        if k == "module":
            return ModRef(r[1])
        if k == "ext":
            return Ext(r[1])
        if k == "var":
            env = self.module_env(r[1])
            return env.get(r[2], unk("var %s.%s" % (r[1], r[2])))
        return unk("binding %r" % (r,))

    # ----------------------------------------------------------- statements
    def _exec_block(self, stmts, env, modname, toplevel=False):
        for s in stmts:
            self._exec(s, env, modname, toplevel)

    def _exec(self, s, env, modname, toplevel):
        if isinstance(s, ast.Assign):
            v = self.eval(s.value, modname, env)
            for t in s.targets:
                self._assign(t, v, env, modname)
        elif isinstance(s, ast.AnnAssign):
            if s.value is not None:
                self._assign(s.target, self.eval(s.value, modname, env), env, modname)
        elif isinstance(s, ast.AugAssign):
            cur = self.eval(s.target, modname, env)
            v = self._binop(s.op, cur, self.eval(s.value, modname, env))
            self._assign(s.target, v, env, modname)
        elif isinstance(s, ast.Expr):
            self._exec_call_stmt(s.value, env, modname)
        elif isinstance(s, (ast.Import, ast.ImportFrom)):
            if not toplevel:
                self._local_import(s, env, modname)
        elif isinstance(s, ast.ClassDef):
            if toplevel:
                env[s.name] = ClassRef("%s.%s" % (modname, s.name))
        elif isinstance(s, (ast.FunctionDef, ast.AsyncFunctionDef)):
            if toplevel:
                env[s.name] = FuncRef("%s.%s" % (modname, s.name))
        elif isinstance(s, ast.Try):
            self._exec_block(s.body, env, modname, toplevel)
            self._exec_block(s.orelse, env, modname, toplevel)
            self._exec_block(s.finalbody, env, modname, toplevel)
        elif isinstance(s, ast.If):
            try:
                t = self.eval(s.test, modname, env)
                known = not is_unknown(t)
            except AnalysisError:
                known = False
            if known:
                self._exec_block(s.body if t else s.orelse, env, modname, toplevel)
            else:
                # assignments under an unknown test make their targets unknown
                for n in ast.walk(s):
                    if isinstance(n, ast.Name) and isinstance(n.ctx, ast.Store):
                        env[n.id] = unk("assigned under unknown test")
        elif isinstance(s, ast.For) and not s.orelse:
            it = self.eval(s.iter, modname, env)
            items = None if is_unknown(it) else self._iterate(it)
            if items is not None and len(items) <= 2000 and not any(isinstance(x, (ast.Break, ast.Continue, ast.While, ast.Try)) for b in s.body for x in ast.walk(b)):
                for item in items:
                    self._assign(s.target, item, env, modname)
                    self._exec_block(s.body, env, modname, toplevel)
            else:
                for n in ast.walk(s):
                    if isinstance(n, ast.Name) and isinstance(n.ctx, ast.Store):
                        env[n.id] = unk("assigned in loop")
        elif isinstance(s, ast.Return):
            raise _Return(self.eval(s.value, modname, env) if s.value is not None else None)
        elif isinstance(s, (ast.For, ast.While, ast.With)):
            for n in ast.walk(s):
                if isinstance(n, ast.Name) and isinstance(n.ctx, ast.Store):
                    env[n.id] = unk("assigned in loop/with")
        elif isinstance(s, ast.Delete):
            for t in s.targets:
                if isinstance(t, ast.Name):
                    env.pop(t.id, None)
                elif isinstance(t, ast.Subscript):
                    base = self.eval(t.value, modname, env)
                    key = self.eval(t.slice, modname, env)
                    if isinstance(base, dict) and not is_unknown(key):
                        base.pop(key, None)

    def _local_import(self, s, env, modname):
        if isinstance(s, ast.ImportFrom) and s.module and not s.level:
            for a in s.names:
                name = a.asname or a.name
                if s.module.split(".")[0] == "prov" and s.module in self.p.units:
                    r = self.p.resolve_name(s.module, a.name)
                    if r is None and (s.module + "." + a.name) in self.p.units:
                        r = ("module", s.module + "." + a.name)
                    env[name] = self._binding_value(r) if r else unk("import %s" % a.name)
                else:
                    env[name] = Ext(s.module + "." + a.name)
        elif isinstance(s, ast.Import):
            for a in s.names:
                name = a.asname or a.name.split(".")[0]
                target = a.name if a.asname else a.name.split(".")[0]
                env[name] = ModRef(target) if target in self.p.units else Ext(target)

    def _assign(self, target, v, env, modname):
        if isinstance(target, ast.Name):
            env[target.id] = v
        elif isinstance(target, (ast.Tuple, ast.List)):
            if isinstance(v, (tuple, list)) and len(v) == len(target.elts):
                for t, x in zip(target.elts, v):
                    self._assign(t, x, env, modname)
            else:
                for t in target.elts:
                    self._assign(t, unk("unpack"), env, modname)
        elif isinstance(target, ast.Subscript):
            base = self.eval(target.value, modname, env)
            key = self.eval(target.slice, modname, env)
            if isinstance(base, dict) and not is_unknown(key) and hashable(key):
                base[key] = v
        elif isinstance(target, ast.Attribute):
            base = self.eval(target.value, modname, env)
            if isinstance(base, ClassRef):
                env.setdefault("__classattrs__", {})[(base.qual, target.attr)] = v

    def _exec_call_stmt(self, e, env, modname):
        if not isinstance(e, ast.Call) or not isinstance(e.func, ast.Attribute):
            return
        base = self.eval(e.func.value, modname, env)
        m = e.func.attr
        args = [self.eval(a, modname, env) for a in e.args]
        if isinstance(base, dict) and m == "update" and len(args) == 1:
            if isinstance(args[0], dict):
                base.update(args[0])
            else:
                base.clear()
                base["__unknown__"] = unk("update with unknown")
        elif isinstance(base, list) and m == "append" and len(args) == 1:
            base.append(args[0])
        elif isinstance(base, list) and m == "extend" and len(args) == 1 and isinstance(args[0], (list, tuple)):
            base.extend(args[0])
        elif isinstance(base, set) and m == "add" and len(args) == 1 and hashable(args[0]):
            base.add(args[0])
        elif isinstance(base, set) and m == "update" and len(args) == 1 and isinstance(args[0], (set, list, tuple)):
            base.update(args[0])

    # ----------------------------------------------------------- expressions
    def eval(self, e, modname: str, env: Optional[dict] = None):
        try:
            return self._eval(e, modname, env if env is not None else {})
        except RecursionError:
            return unk("recursion")

    def _eval(self, e, m, env):
        if isinstance(e, ast.Constant):
            return e.value
        if isinstance(e, ast.Name):
            return self.lookup(m, e.id, env)
        if isinstance(e, ast.Attribute):
            return self._attr(self._eval(e.value, m, env), e.attr, m)
        if isinstance(e, ast.Subscript):
            base = self._eval(e.value, m, env)
            if isinstance(e.slice, ast.Slice):
                lo = self._eval(e.slice.lower, m, env) if e.slice.lower else None
                hi = self._eval(e.slice.upper, m, env) if e.slice.upper else None
                if isinstance(base, (list, tuple, str)) and not is_unknown(lo) and not is_unknown(hi) and e.slice.step is None:
                    return base[lo:hi]
                return unk("slice")
            return self._subscript(base, self._eval(e.slice, m, env))
        if isinstance(e, ast.Dict):
            out = {}
            for k, v in zip(e.keys, e.values):
                if k is None:
                    sub = self._eval(v, m, env)
                    if isinstance(sub, dict):
                        out.update(sub)
                    else:
                        return unk("**unknown in dict")
                    continue
                kk = self._eval(k, m, env)
                if is_unknown(kk) or not hashable(kk):
                    return unk("dict key %s" % ast.unparse(k))
                out[kk] = self._eval(v, m, env)
            return out
        if isinstance(e, ast.Set):
            vals = [self._eval(x, m, env) for x in e.elts]
            if any(is_unknown(v) or not hashable(v) for v in vals):
                return unk("set element")
            return set(vals)
        if isinstance(e, ast.List):
            return [self._eval(x, m, env) for x in e.elts]
        if isinstance(e, ast.Tuple):
            return tuple(self._eval(x, m, env) for x in e.elts)
        if isinstance(e, ast.BinOp):
            return self._binop(e.op, self._eval(e.left, m, env), self._eval(e.right, m, env))
        if isinstance(e, ast.UnaryOp):
            v = self._eval(e.operand, m, env)
            if is_unknown(v):
                return v
            if isinstance(e.op, ast.Not):
                return not v
            if isinstance(e.op, ast.USub) and isinstance(v, (int, float)):
                return -v
            return unk("unary")
        if isinstance(e, ast.BoolOp):
            vals = [self._eval(x, m, env) for x in e.values]
            if any(is_unknown(v) for v in vals):
                return unk("boolop")
            if isinstance(e.op, ast.And):
                r = True
                for v in vals:
                    r = v
                    if not v:
                        break
                return r
            r = False
            for v in vals:
                r = v
                if v:
                    break
            return r
        if isinstance(e, ast.IfExp):
            t = self._eval(e.test, m, env)
            if is_unknown(t):
                return unk("ifexp test")
            return self._eval(e.body if t else e.orelse, m, env)
        if isinstance(e, ast.Compare):
            return self._compare(e, m, env)
        if isinstance(e, ast.Call):
            return self._call(e, m, env)
        if isinstance(e, (ast.ListComp, ast.GeneratorExp, ast.SetComp, ast.DictComp)):
            return self._comp(e, m, env)
        if isinstance(e, ast.JoinedStr):
            out = ""
            for part in e.values:
                if isinstance(part, ast.Constant):
                    out += str(part.value)
                elif isinstance(part, ast.FormattedValue):
                    v = self._eval(part.value, m, env)
                    if is_unknown(v) or part.format_spec is not None:
                        return unk("fstring")
                    out += self._str(v)
            return out
        if isinstance(e, ast.Lambda):
            lq = getattr(self.p, "lambda_quals", {}).get(id(e))
            return FuncRef(lq) if lq else unk("lambda")
        if isinstance(e, ast.Starred):
            return unk("starred")
        return unk(type(e).__name__)

    def _str(self, v):
        if isinstance(v, QN):
            return v.s
        if isinstance(v, str):
            return v
        if isinstance(v, (int, float, bool)) or v is None:
            return str(v)
        raise AnalysisError("str() of %r not modelled" % (v,))

    def _attr(self, base, attr, m):
        if is_unknown(base):
            return base
        if isinstance(base, NS):
            if attr in ("uri", "_uri"):
                return base.uri
            if attr in ("prefix", "_prefix"):
                return base.prefix
            return unk("NS.%s" % attr)
        if isinstance(base, QN):
            if attr in ("uri", "_uri"):
                return base.uri
            if attr in ("localpart", "_localpart"):
                return base.local
            if attr in ("namespace", "_namespace"):
                return base.ns
            if attr == "_str":
                return base.s
            return unk("QN.%s" % attr)
        if isinstance(base, Ext):
            return Ext(base.name + "." + attr)
        if isinstance(base, ModRef):
            if base.name in self.p.units:
                sub = base.name + "." + attr
                if sub in self.p.units:
                    return ModRef(sub)
                return self.lookup(base.name, attr)
            return Ext(base.name + "." + attr)
        if isinstance(base, ClassRef):
            return self.class_attr(base.qual, attr)
        if isinstance(base, ExtCall):
            return ExtCall(".", (base, attr))
        return unk("attr %s of %r" % (attr, type(base).__name__))

    def class_attr(self, cls_qual: str, attr: str):
        if cls_qual not in self.p.classes:
            return unk("class %s" % cls_qual)
        # assigned from outside (Registry.serializers = ...)
        for env in self._envs.values():
            ca = env.get("__classattrs__", {})
            if (cls_qual, attr) in ca:
                return ca[(cls_qual, attr)]
        hit = self.p.class_attr(cls_qual, attr)
        if hit is not None:
            owner, expr = hit
            return self.eval(expr, self.p.classes[owner].module, {})
        mq = self.p.lookup_method(cls_qual, attr)
        if mq:
            return FuncRef(mq)
        return unk("%s.%s" % (cls_qual, attr))

    def _subscript(self, base, key):
        if is_unknown(base):
            return base
        if is_unknown(key):
            return key
        if isinstance(base, NS):
            if isinstance(key, str):
                return QN(base, key)
            return unk("NS[%r]" % (key,))
        if isinstance(base, dict):
            if hashable(key) and key in base:
                return base[key]
            return unk("missing key %r" % (key,))
        if isinstance(base, (list, tuple, str)) and isinstance(key, int):
            try:
                return base[key]
            except IndexError:
                return unk("index")
        if isinstance(base, (Ext, ExtCall)):
            return ExtCall((base.name if isinstance(base, Ext) else repr(base)) + "[]", (key,))
        return unk("subscript of %r" % type(base).__name__)

    def _binop(self, op, a, b):
        if is_unknown(a):
            return a
        if is_unknown(b):
            return b
        try:
            if isinstance(op, ast.BitOr) and isinstance(a, (set, frozenset)) and isinstance(b, (set, frozenset)):
                return set(a) | set(b)
            if isinstance(op, ast.BitAnd) and isinstance(a, (set, frozenset)) and isinstance(b, (set, frozenset)):
                return set(a) & set(b)
            if isinstance(op, ast.Sub) and isinstance(a, (set, frozenset)) and isinstance(b, (set, frozenset)):
                return set(a) - set(b)
            if isinstance(op, ast.Add):
                if isinstance(a, str) and isinstance(b, str):
                    return a + b
                if isinstance(a, list) and isinstance(b, list):
                    return a + b
                if isinstance(a, tuple) and isinstance(b, tuple):
                    return a + b
                if isinstance(a, (int, float)) and isinstance(b, (int, float)):
                    return a + b
            if isinstance(op, ast.Mod) and isinstance(a, str):
                args = b if isinstance(b, tuple) else (b,)
                if all(isinstance(x, (str, int, float, QN)) for x in args):
                    return a % tuple(self._str(x) if isinstance(x, QN) else x for x in args)
            if isinstance(op, (ast.Sub, ast.Mult)) and isinstance(a, (int, float)) and isinstance(b, (int, float)):
                return a - b if isinstance(op, ast.Sub) else a * b
        except Exception as ex:  # pragma: no cover
            return unk("binop error %s" % ex)
        return unk("binop %s" % type(op).__name__)

    def _compare(self, e, m, env):
        left = self._eval(e.left, m, env)
        result = True
        for op, rhs in zip(e.ops, e.comparators):
            right = self._eval(rhs, m, env)
            if is_unknown(left) or is_unknown(right):
                return unk("compare")
            if isinstance(op, ast.Eq):
                r = left == right
            elif isinstance(op, ast.NotEq):
                r = left != right
            elif isinstance(op, ast.In):
                r = hashable(left) and left in right if isinstance(right, (dict, set, frozenset)) else left in right
            elif isinstance(op, ast.NotIn):
                r = left not in right
            elif isinstance(op, ast.Is):
                r = left is right
            elif isinstance(op, ast.IsNot):
                r = left is not right
            elif isinstance(op, (ast.Lt, ast.LtE, ast.Gt, ast.GtE)) and isinstance(left, (int, float, str)) and isinstance(right, (int, float, str)):
                r = {ast.Lt: left < right, ast.LtE: left <= right, ast.Gt: left > right, ast.GtE: left >= right}[type(op)]
            else:
                return unk("compare op")
            result = result and r
            left = right
        return result

    def _iterate(self, it):
        if isinstance(it, dict):
            return list(it.keys())
        if isinstance(it, (list, tuple)):
            return list(it)
        if isinstance(it, (set, frozenset)):
            return sorted(it, key=repr)
        return None

    def _comp(self, e, m, env):
        gens = e.generators
        results = []

        def rec(i, scope):
            if i == len(gens):
                if isinstance(e, ast.DictComp):
                    results.append((self._eval(e.key, m, scope), self._eval(e.value, m, scope)))
                else:
                    results.append(self._eval(e.elt, m, scope))
                return True
            g = gens[i]
            it = self._iterate(self._eval(g.iter, m, scope))
            if it is None:
                return False
            for item in it:
                sc = dict(scope)
                self._assign(g.target, item, sc, m)
                ok = True
                for cond in g.ifs:
                    c = self._eval(cond, m, sc)
                    if is_unknown(c):
                        return False
                    if not c:
                        ok = False
                        break
                if ok and not rec(i + 1, sc):
                    return False
            return True

        if not rec(0, dict(env)):
            return unk("comprehension over unknown")
        if isinstance(e, ast.DictComp):
            if any(is_unknown(k) or not hashable(k) for k, _ in results):
                return unk("dictcomp key")
            return dict(results)
        if isinstance(e, ast.SetComp):
            if any(is_unknown(v) or not hashable(v) for v in results):
                return unk("setcomp")
            return set(results)
        return list(results)

    def _call(self, e, m, env):
        # method calls on folded values
        if isinstance(e.func, ast.Attribute):
            base = self._eval(e.func.value, m, env)
            meth = e.func.attr
            args = [self._eval(a, m, env) for a in e.args]
            if isinstance(base, dict):
                if meth == "items" and not args:
                    return [(k, v) for k, v in base.items()]
                if meth == "keys" and not args:
                    return list(base.keys())
                if meth == "values" and not args:
                    return list(base.values())
                if meth == "copy" and not args:
                    return dict(base)
                if meth == "get" and args and not is_unknown(args[0]) and hashable(args[0]):
                    return base.get(args[0], args[1] if len(args) > 1 else None)
            if isinstance(base, str) and all(isinstance(a, str) for a in args):
                if meth in ("rstrip", "lstrip", "strip", "lower", "upper", "split", "startswith", "endswith", "replace", "format"):
                    try:
                        return getattr(base, meth)(*args)
                    except Exception:
                        return unk("str method")
            if isinstance(base, str) and meth == "join" and len(args) == 1 and isinstance(args[0], (list, tuple)):
                if all(isinstance(x, str) for x in args[0]):
                    return base.join(args[0])
                return unk("join of non-str")
            if isinstance(base, str) and meth == "split" and len(args) == 2 and isinstance(args[0], str) and isinstance(args[1], int):
                return base.split(args[0], args[1])
            if isinstance(base, (list, tuple)) and meth == "index" and len(args) == 1:
                try:
                    return list(base).index(args[0])
                except ValueError:
                    return unk("index")
            if isinstance(base, (Ext, ExtCall)):
                name = base.name if isinstance(base, Ext) else repr(base)
                return ExtCall(name + "." + meth, tuple(a if hashable(a) else repr(a) for a in args))
            if isinstance(base, ModRef) or isinstance(base, ClassRef):
                pass  # fall through to generic callee handling
            else:
                if is_unknown(base):
                    return base
                return unk("method %s on %s" % (meth, type(base).__name__))
        f = self._eval(e.func, m, env)
        args = [self._eval(a, m, env) for a in e.args]
        kwargs = {k.arg: self._eval(k.value, m, env) for k in e.keywords if k.arg}
        if isinstance(f, ClassRef):
            if f.qual in (NAMESPACE_CLS, QNAME_CLS) and kwargs:
                init = self.p.functions.get(f.qual + ".__init__")
                if init is not None:
                    names = init.params[1:]
                    full = list(args) + [None] * (len(names) - len(args))
                    for k, v in kwargs.items():
                        if k in names:
                            full[names.index(k)] = v
                    args = full
            if f.qual == NAMESPACE_CLS and len(args) == 2 and all(isinstance(a, str) for a in args):
                return NS(args[0], args[1])
            if f.qual == QNAME_CLS and len(args) == 2 and isinstance(args[0], NS) and isinstance(args[1], str):
                return QN(args[0], args[1])
            return ExtCall(f.qual, tuple(a if hashable(a) else repr(a) for a in args))
        if isinstance(f, Ext):
            n = f.name
            a0 = args[0] if args else None
            if n == "str" and len(args) == 1:
                if is_unknown(a0):
                    return a0
                if isinstance(a0, (QN, str, int, float, bool)):
                    return self._str(a0)
                return unk("str of %r" % type(a0).__name__)
            if n == "dict":
                if not args:
                    return dict(kwargs)
                if isinstance(a0, dict):
                    return dict(a0)
                if isinstance(a0, (list, tuple)) and all(isinstance(x, tuple) and len(x) == 2 and hashable(x[0]) and not is_unknown(x[0]) for x in a0):
                    return dict(a0)
                return unk("dict(...)")
            if n in ("list", "tuple", "set", "frozenset", "sorted"):
                if not args:
                    return {"list": [], "tuple": (), "set": set(), "frozenset": set(), "sorted": []}[n]
                it = self._iterate(a0)
                if it is None:
                    return unk("%s(...)" % n)
                if n == "list" or n == "sorted":
                    return list(it)
                if n == "tuple":
                    return tuple(it)
                if any(is_unknown(x) or not hashable(x) for x in it):
                    return unk("set of unhashable")
                return set(it)
            if n == "len" and len(args) == 1 and isinstance(a0, (list, tuple, dict, set, str)):
                return len(a0)
            return ExtCall(n, tuple(a if hashable(a) else repr(a) for a in args))
        if isinstance(f, FuncRef) and f.qual in self.p.functions and getattr(self, "_call_depth", 0) < 3:
            fi = self.p.functions[f.qual]
            node = fi.node
            if isinstance(node, ast.FunctionDef) and not fi.cls and len(node.body) <= 12 and not any(is_unknown(a) for a in args):
                names = [a.arg for a in node.args.args]
                if len(args) <= len(names) and not node.args.vararg and not node.args.kwarg:
                    local = dict(zip(names, args))
                    local.update({k: v for k, v in kwargs.items() if k in names})
                    defaults = node.args.defaults
                    for nme, dflt in zip(names[len(names) - len(defaults):], defaults):
                        if nme not in local:
                            local[nme] = self.eval(dflt, fi.module, {})
                    if all(n in local for n in names):
                        self._call_depth = getattr(self, "_call_depth", 0) + 1
                        try:
                            self._exec_block(node.body, local, fi.module)
                            return None
                        except _Return as r:
                            return r.value
                        except AnalysisError:
                            return unk("call %s failed" % f.qual)
                        finally:
                            self._call_depth -= 1
        if is_unknown(f):
            return f
        return unk("call of %r" % (f,))

    # ----------------------------------------------------------- function-local constants
    def function_env(self, func_qual: str, extra: Optional[dict] = None) -> dict:
        """Fold the straight-line assignments (and local imports) of a function body, in order,
        descending into if/for/with/try bodies (a name assigned twice keeps the last value)."""
        fi = self.p.func(func_qual)
        env: Dict[str, Any] = dict(extra or {})
        for par in reversed(self.p.enclosing_chain(func_qual)):
            env.update(self.function_env(par))

        def walk(stmts):
            for s in stmts:
                if isinstance(s, (ast.Import, ast.ImportFrom)):
                    self._local_import(s, env, fi.module)
                elif isinstance(s, ast.Assign):
                    try:
                        v = self.eval(s.value, fi.module, env)
                    except AnalysisError:
                        v = unk("eval error")
                    for t in s.targets:
                        if isinstance(t, ast.Name):
                            env[t.id] = v
                        elif isinstance(t, ast.Attribute):
                            b = self.eval(t.value, fi.module, env)
                            if isinstance(b, ClassRef):
                                menv = self.module_env(fi.module)
                                menv.setdefault("__classattrs__", {})[(b.qual, t.attr)] = v
                elif isinstance(s, (ast.If, ast.For, ast.While, ast.With, ast.Try)):
                    for fld in ("body", "orelse", "finalbody"):
                        walk(getattr(s, fld, []) or [])
                    for h in getattr(s, "handlers", []) or []:
                        walk(h.body)

        walk(fi.node.body)
        return env


# ---------------------------------------------------------------------------------------------
def _interp_init(program: Program, folder: Folder, cls_qual: str, argenv: dict, depth=0) -> dict:
    """Abstractly run cls_qual.__init__ (resolved through the MRO) on folded arguments: returns {field: folded value}.
    Understands self.f = e, local = e, if/else on a foldable test (both arms otherwise: a field set differently becomes unknown),
    and delegation to a base-class __init__ (Base.__init__(self, ..), super().__init__(..), super(C, self).__init__(..))."""
    iq = program.lookup_method(cls_qual, "__init__")
    if iq is None or depth > 4:
        return {}
    fi = program.func(iq)
    mod = fi.module
    env = dict(argenv)
    fields: dict = {}

    class _SelfProxy:
        pass

    def run(stmts):
        for st in stmts:
            if isinstance(st, ast.Expr) and isinstance(st.value, ast.Call):
                c = st.value
                f = c.func
                if isinstance(f, ast.Attribute) and f.attr == "__init__":
                    args = list(c.args)
                    base = None
                    if isinstance(f.value, ast.Call) and dotted(f.value.func) == "super":
                        mro = program.mro(fi.cls)
                        base = mro[mro.index(fi.cls) + 1] if fi.cls in mro and mro.index(fi.cls) + 1 < len(mro) else None
                    else:
                        r = program.resolve_dotted(mod, f.value)
                        base = r[1] if r and r[0] == "class" else None
                        if args and dotted(args[0]) == "self":
                            args = args[1:]
                    if base and program.lookup_method(base, "__init__"):
                        bfi = program.func(program.lookup_method(base, "__init__"))
                        benv = {}
                        for pn, a in zip(bfi.params[1:], args):
                            benv[pn] = folder.eval(a, mod, env)
                        for k in c.keywords:
                            if k.arg:
                                benv[k.arg] = folder.eval(k.value, mod, env)
                        fields.update(_interp_init(program, folder, base, benv, depth + 1))
            elif isinstance(st, ast.Assign) and len(st.targets) == 1:
                t = st.targets[0]
                v = folder.eval(st.value, mod, env)
                if isinstance(t, ast.Attribute) and dotted(t.value) == "self":
                    fields[t.attr] = v
                    env["self." + t.attr] = v
                elif isinstance(t, ast.Name):
                    env[t.id] = v
            elif isinstance(st, ast.If):
                tv = folder.eval(st.test, mod, env)
                if not is_unknown(tv):
                    run(st.body if tv else st.orelse)
                else:
                    before = dict(fields)
                    run(st.body)
                    a = dict(fields)
                    fields.clear(); fields.update(before)
                    run(st.orelse)
                    for k in set(a) | set(fields):
                        if a.get(k, "<unset>") != fields.get(k, "<unset>"):
                            fields[k] = unk("set differently on the two arms of `if %s`" % norm(st.test)[:40])
            elif isinstance(st, ast.Raise):
                return

    run(fi.node.body)
    return fields


def _getter_field(program: Program, cls_qual: str, name: str):
    """The field a property (or __str__-like method) `name` of the class returns: `return self.<f>`."""
    q = program.lookup_method(cls_qual, name)
    if q is None:
        return name
    rets = [n for n in ast.walk(program.func(q).node) if isinstance(n, ast.Return) and n.value is not None]
    if len(rets) == 1 and isinstance(rets[0].value, ast.Attribute) and dotted(rets[0].value.value) == "self":
        return rets[0].value.attr
    return None


def validate_identifier_model(program: Program, folder: Folder):
    """Model-conformance obligation (reported under C03.R5): the symbolic QN/NS used by the folder
    must be what identifier.py computes: uri = ns.uri + local; str = prefix:local, or local when the
    prefix is empty; Namespace.__getitem__ mints QualifiedName(self, localpart).  Field names are not assumed:
    constructors are run abstractly and the public accessors (uri, prefix, __str__) are resolved to the fields they return.
    Returns a list of (obligation, ok, detail)."""
    out = []
    init = program.func(program.lookup_method(QNAME_CLS, "__init__"))
    params = init.params
    if len(params) != 3:
        raise AnalysisError("QualifiedName.__init__ signature changed: %s" % params)
    ns_p, loc_p = params[1], params[2]
    uri_f, str_f = _getter_field(program, QNAME_CLS, "uri"), _getter_field(program, QNAME_CLS, "__str__")
    for prefix, expect_str in (("P", "P:L"), ("", "L")):
        fields = _interp_init(program, folder, QNAME_CLS, {ns_p: NS(prefix, "U#"), loc_p: "L"})
        out.append(("QualifiedName.uri == namespace.uri + localpart (prefix=%r)" % prefix, fields.get(uri_f) == "U#L", repr(fields.get(uri_f))))
        out.append(("str(QualifiedName) == %r (prefix=%r)" % (expect_str, prefix), fields.get(str_f) == expect_str, repr(fields.get(str_f))))
    iinit = program.func(program.lookup_method(IDENT_CLS, "__init__"))
    f_i = _interp_init(program, folder, IDENT_CLS, {iinit.params[1]: "U#L"})
    out.append(("Identifier stores its URI unchanged", f_i.get(_getter_field(program, IDENT_CLS, "uri")) == "U#L", repr(f_i)))
    out.append(("QualifiedName.__str__ returns the printed form computed by the constructor", str_f is not None, repr(str_f)))
    # Namespace.__getitem__ (or a private helper it calls) mints QualifiedName(self, <its parameter>)
    gi_q = program.lookup_method(NAMESPACE_CLS, "__getitem__")
    gi = program.func(gi_q)
    cands = [gi]
    for n in ast.walk(gi.node):
        if isinstance(n, ast.Call) and isinstance(n.func, ast.Attribute) and dotted(n.func.value) == "self":
            hq = program.lookup_method(NAMESPACE_CLS, n.func.attr)
            if hq and any(dotted(a) == gi.params[1] for a in n.args):
                cands.append(program.func(hq))
    made = []
    for f in cands:
        for n in ast.walk(f.node):
            if isinstance(n, ast.Call) and dotted(n.func) == "QualifiedName":
                amap = {}
                for i, a in enumerate(n.args):
                    if i + 1 < len(params):
                        amap[params[i + 1]] = a
                for k in n.keywords:
                    if k.arg:
                        amap[k.arg] = k.value
                if dotted(amap.get(ns_p)) == "self" and dotted(amap.get(loc_p)) in f.params[1:]:
                    made.append(n)
    out.append(("Namespace.__getitem__ mints QualifiedName(self, localpart)", len(made) >= 1, ""))
    ninit = program.func(program.lookup_method(NAMESPACE_CLS, "__init__"))
    f_n = _interp_init(program, folder, NAMESPACE_CLS, {ninit.params[1]: "P", ninit.params[2]: "U#"})
    pf, uf = _getter_field(program, NAMESPACE_CLS, "prefix"), _getter_field(program, NAMESPACE_CLS, "uri")
    out.append(("Namespace stores prefix and uri unchanged", f_n.get(pf) == "P" and f_n.get(uf) == "U#", repr({k: v for k, v in f_n.items() if k in (pf, uf)})))
    return out
