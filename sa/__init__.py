"""Static analysis of trungdong/prov against the properties in /verif/properties.jsonl.

Nothing in this package imports or executes `prov`: every verdict is derived from the
syntax trees of the current /repo working tree (see DESIGN.md).
"""
