"""E1 - program model: units, symbols, classes (bases, MRO, methods, aliases), functions.

Only `ast` is used.  A unit that fails to parse, or an expected unit that is
missing, raises AnalysisError (exit 2), never a verdict.
"""
from __future__ import annotations

import ast
import hashlib
import os
from dataclasses import dataclass, field
from typing import Dict, List, Optional, Tuple


class AnalysisError(Exception):
    """The analysis cannot interpret the tree (vanished anchor, unknown construct)."""


# the units the real build covers: the package (minus tests) and the two scripts
PACKAGE_UNITS = [
    ("prov", "src/prov/__init__.py"),
    ("prov.constants", "src/prov/constants.py"),
    ("prov.identifier", "src/prov/identifier.py"),
    ("prov.model", "src/prov/model.py"),
    ("prov.graph", "src/prov/graph.py"),
    ("prov.dot", "src/prov/dot.py"),
    ("prov.serializers", "src/prov/serializers/__init__.py"),
    ("prov.serializers.provjson", "src/prov/serializers/provjson.py"),
    ("prov.serializers.provxml", "src/prov/serializers/provxml.py"),
    ("prov.serializers.provrdf", "src/prov/serializers/provrdf.py"),
    ("prov.serializers.provn", "src/prov/serializers/provn.py"),
]
SCRIPT_UNITS = [
    ("scripts.prov-compare", "scripts/prov-compare"),
    ("scripts.prov-convert", "scripts/prov-convert"),
]


@dataclass
class Unit:
    modname: str
    relpath: str
    abspath: str
    src: str
    tree: ast.Module
    sha256: str
    n_functions: int = 0


@dataclass
class FuncInfo:
    qual: str  # e.g. prov.model.ProvBundle._add_record, prov.dot.prov_to_dot.<locals>._bundle_to_dot
    module: str
    name: str
    node: ast.AST  # FunctionDef | Lambda
    cls: Optional[str] = None  # qualified class name if a method
    parent: Optional[str] = None  # enclosing function qual if nested
    decorators: Tuple[str, ...] = ()

    @property
    def is_static(self):
        return "staticmethod" in self.decorators

    @property
    def is_property(self):
        return any(d == "property" or d.rsplit(".", 1)[-1] == "cached_property" for d in self.decorators)

    @property
    def params(self) -> List[str]:
        a = self.node.args
        return [x.arg for x in a.posonlyargs + a.args]

    def loc(self, unit_rel):
        return "%s:%d" % (unit_rel, self.node.lineno)


@dataclass
class ClassInfo:
    qual: str
    module: str
    name: str
    node: ast.ClassDef
    base_exprs: List[ast.expr]
    bases: List[str] = field(default_factory=list)  # resolved repo classes (qual) or 'EXT:<dotted>'
    methods: Dict[str, str] = field(default_factory=dict)  # name -> FuncInfo.qual (incl. aliases)
    aliases: Dict[str, str] = field(default_factory=dict)  # alias name -> original method name
    class_attrs: Dict[str, ast.expr] = field(default_factory=dict)


def dotted(node) -> Optional[str]:
    """a.b.c -> 'a.b.c' for Name/Attribute chains, else None."""
    parts = []
    while isinstance(node, ast.Attribute):
        parts.append(node.attr)
        node = node.value
    if isinstance(node, ast.Name):
        parts.append(node.id)
        return ".".join(reversed(parts))
    return None


class Program:
    def __init__(self, root: str, with_scripts: bool = True):
        self.root = os.path.abspath(root)
        self.units: Dict[str, Unit] = {}
        self.functions: Dict[str, FuncInfo] = {}
        self.lambda_quals: Dict[int, str] = {}
        self.classes: Dict[str, ClassInfo] = {}
        # per module: name -> binding
        #   ('class', qual) ('func', qual) ('module', dotted) ('ext', dotted) ('var', modname, name)
        self.bindings: Dict[str, Dict[str, tuple]] = {}
        self.star_imports: Dict[str, List[str]] = {}
        wanted = list(PACKAGE_UNITS) + (list(SCRIPT_UNITS) if with_scripts else [])
        for modname, rel in wanted:
            self._load(modname, rel)
        # units under src/prov that are not in the table (new module) must be seen too
        self._discover_new_modules()
        for m in self.units:
            self._index_module(m)
        for m in self.units:
            self._resolve_star(m, set())
        for c in self.classes.values():
            c.bases = [self._resolve_base(c.module, b) for b in c.base_exprs]
        self._mro_cache: Dict[str, List[str]] = {}
        self.propagated_constants: Dict[str, object] = {}
        self._propagate_constants()

    # ------------------------------------------------------------------ loading
    def _load(self, modname, rel):
        p = os.path.join(self.root, rel)
        if not os.path.isfile(p):
            raise AnalysisError("unit missing: %s" % rel)
        with open(p, "rb") as fh:
            raw = fh.read()
        try:
            tree = ast.parse(raw, filename=p)
        except SyntaxError as e:
            raise AnalysisError("unit does not parse: %s: %s" % (rel, e))
        self.units[modname] = Unit(
            modname, rel, p, raw.decode("utf-8", "replace"), tree, hashlib.sha256(raw).hexdigest()
        )

    def _discover_new_modules(self):
        base = os.path.join(self.root, "src", "prov")
        known = {u.relpath for u in self.units.values()}
        for d, dirs, files in os.walk(base):
            dirs[:] = [x for x in dirs if x not in ("tests", "__pycache__")]
            for f in sorted(files):
                if not f.endswith(".py"):
                    continue
                rel = os.path.relpath(os.path.join(d, f), self.root)
                if rel in known:
                    continue
                mod = rel[len("src/") : -3].replace(os.sep, ".")
                if mod.endswith(".__init__"):
                    mod = mod[: -len(".__init__")]
                self._load(mod, rel)

    # ------------------------------------------------------------------ indexing
    def _index_module(self, modname):
        unit = self.units[modname]
        b: Dict[str, tuple] = {}
        self.bindings[modname] = b
        self.star_imports[modname] = []

        def index_function(node, qual, cls=None, parent=None):
            decos = tuple(d for d in (dotted(x) for x in node.decorator_list) if d)
            fi = FuncInfo(qual, modname, node.name, node, cls=cls, parent=parent, decorators=decos)
            self.functions[qual] = fi
            unit.n_functions += 1
            index_nested(node, qual)

        def index_nested(fnode, fqual):
            # nested defs (closures) at any statement depth but not inside inner defs
            stack = list(fnode.body)
            while stack:
                s = stack.pop()
                if isinstance(s, (ast.FunctionDef, ast.AsyncFunctionDef)):
                    index_function(s, "%s.<locals>.%s" % (fqual, s.name), parent=fqual)
                    continue
                if isinstance(s, ast.ClassDef):
                    continue
                for ch in ast.iter_child_nodes(s):
                    if isinstance(ch, (ast.stmt, ast.ExceptHandler, ast.match_case)) or isinstance(
                        ch, (ast.FunctionDef,)
                    ):
                        stack.append(ch)

        def index_imports(stmt):
            if isinstance(stmt, ast.Import):
                for a in stmt.names:
                    name = a.asname or a.name.split(".")[0]
                    target = a.name if a.asname else a.name.split(".")[0]
                    if target.split(".")[0] == "prov":
                        b[name] = ("module", target)
                    else:
                        b[name] = ("ext", target)
            elif isinstance(stmt, ast.ImportFrom):
                mod = stmt.module or ""
                if stmt.level:
                    pkg = modname.split(".")
                    pkg = pkg[: len(pkg) - stmt.level + (1 if self._is_pkg(modname) else 0)]
                    mod = ".".join(pkg + ([mod] if mod else []))
                for a in stmt.names:
                    if a.name == "*":
                        self.star_imports[modname].append(mod)
                        continue
                    name = a.asname or a.name
                    if mod.split(".")[0] == "prov":
                        b[name] = ("import", mod, a.name)
                    else:
                        b[name] = ("ext", mod + "." + a.name)

        def walk_toplevel(stmts):
            for s in stmts:
                if isinstance(s, (ast.Import, ast.ImportFrom)):
                    index_imports(s)
                elif isinstance(s, (ast.FunctionDef, ast.AsyncFunctionDef)):
                    q = "%s.%s" % (modname, s.name)
                    b[s.name] = ("func", q)
                    index_function(s, q)
                elif isinstance(s, ast.ClassDef):
                    q = "%s.%s" % (modname, s.name)
                    b[s.name] = ("class", q)
                    ci = ClassInfo(q, modname, s.name, s, list(s.bases))
                    self.classes[q] = ci
                    for cs in s.body:
                        if isinstance(cs, (ast.FunctionDef, ast.AsyncFunctionDef)):
                            mq = "%s.%s" % (q, cs.name)
                            ci.methods[cs.name] = mq
                            index_function(cs, mq, cls=q)
                        elif isinstance(cs, ast.Assign):
                            for t in cs.targets:
                                if isinstance(t, ast.Name):
                                    ci.class_attrs[t.id] = cs.value
                                    if isinstance(cs.value, ast.Name) and cs.value.id in ci.methods:
                                        ci.aliases[t.id] = cs.value.id
                                        ci.methods[t.id] = ci.methods[cs.value.id]
                        elif isinstance(cs, ast.AnnAssign) and isinstance(cs.target, ast.Name) and cs.value:
                            ci.class_attrs[cs.target.id] = cs.value
                elif isinstance(s, ast.Assign):
                    for t in s.targets:
                        for n in ast.walk(t):
                            if isinstance(n, ast.Name):
                                b[n.id] = ("var", modname, n.id)
                    # lambdas kept in a module-level table (dispatch tables): each becomes a function of its own, so that the
                    # rules see `lambda v: f(v)` exactly as they see `def _h(v): return f(v)`
                    for lam in [x for x in ast.walk(s.value) if isinstance(x, ast.Lambda)]:
                        q = "%s.<lambda@%d:%d>" % (modname, lam.lineno, lam.col_offset)
                        fd = ast.FunctionDef(name="<lambda@%d:%d>" % (lam.lineno, lam.col_offset), args=lam.args,
                                             body=[ast.copy_location(ast.Return(value=lam.body), lam.body)], decorator_list=[], returns=None, type_comment=None, type_params=[])
                        ast.copy_location(fd, lam)
                        ast.fix_missing_locations(fd)
                        self.lambda_quals[id(lam)] = q
                        index_function(fd, q)
                elif isinstance(s, (ast.AnnAssign, ast.AugAssign)):
                    if isinstance(s.target, ast.Name):
                        b.setdefault(s.target.id, ("var", modname, s.target.id))
                elif isinstance(s, ast.Try):
                    walk_toplevel(s.body)
                    before = dict(b)
                    for h in s.handlers:
                        walk_toplevel(h.body)
                    # `try: from html import escape / except ImportError: from cgi import escape`: the try-body binding is the
                    # one in force on the interpreter the code is written for; a fallback import must not shadow it
                    for k, v in before.items():
                        if b.get(k) != v and v[0] in ("ext", "import"):
                            b[k] = v
                    walk_toplevel(s.orelse)
                    walk_toplevel(s.finalbody)
                elif isinstance(s, ast.If):
                    walk_toplevel(s.body)
                    walk_toplevel(s.orelse)
                elif isinstance(s, (ast.For, ast.While, ast.With)):
                    walk_toplevel(s.body)

        walk_toplevel(unit.tree.body)

    def _is_pkg(self, modname):
        return self.units[modname].relpath.endswith("__init__.py")

    def _resolve_star(self, modname, seen):
        if modname in seen:
            return
        seen.add(modname)
        for src in self.star_imports.get(modname, []):
            if src in self.units:
                self._resolve_star(src, seen)
                allnames = self._dunder_all(src)
                for name, bind in self.bindings[src].items():
                    if allnames is not None:
                        if name not in allnames:
                            continue
                    elif name.startswith("_"):
                        continue
                    self.bindings[modname].setdefault(name, ("import", src, name))

    def _dunder_all(self, modname):
        for s in self.units[modname].tree.body:
            if isinstance(s, ast.Assign) and any(
                isinstance(t, ast.Name) and t.id == "__all__" for t in s.targets
            ):
                try:
                    return set(ast.literal_eval(s.value))
                except Exception:
                    return None
        return None

    # ------------------------------------------------------------------ resolution
    # ------------------------------------------------------------------ literal constants hoisted to module level
    def _propagate_constants(self):
        """A module-level name bound exactly once to a string / number / bytes literal (or a tuple of such) and never rebound is
        replaced by that literal wherever a function body reads it (same module, or imported by name).  Rules that look for the
        text a function emits then see the same constants whether they are written in place or hoisted."""
        consts: Dict[Tuple[str, str], object] = {}

        def lit(e):
            if isinstance(e, ast.Constant) and isinstance(e.value, (str, bytes, int, float)) and not isinstance(e.value, bool):
                return True
            return isinstance(e, ast.Tuple) and bool(e.elts) and all(lit(x) for x in e.elts)

        for m, u in self.units.items():
            counts: Dict[str, int] = {}
            vals: Dict[str, ast.expr] = {}
            for st in u.tree.body:
                tg = []
                if isinstance(st, ast.Assign):
                    tg = st.targets
                elif isinstance(st, (ast.AugAssign, ast.AnnAssign)):
                    tg = [st.target]
                for t in tg:
                    for x in ast.walk(t):
                        if isinstance(x, ast.Name):
                            counts[x.id] = counts.get(x.id, 0) + 1
                if isinstance(st, ast.Assign) and len(st.targets) == 1 and isinstance(st.targets[0], ast.Name) and lit(st.value):
                    vals[st.targets[0].id] = st.value
            rebound = set()
            for n in ast.walk(u.tree):
                if isinstance(n, (ast.Global, ast.Nonlocal)):
                    rebound |= set(n.names)
            for name, v in vals.items():
                if counts.get(name) == 1 and name not in rebound and not (name.startswith("__") and name.endswith("__")):
                    consts[(m, name)] = v
        prog = self

        class Sub(ast.NodeTransformer):
            def __init__(self, mod, shadow):
                self.mod, self.shadow = mod, shadow

            def visit_Name(self, n):
                if not isinstance(n.ctx, ast.Load) or n.id in self.shadow:
                    return n
                r = prog.resolve_name(self.mod, n.id)
                if r and r[0] == "var" and (r[1], r[2]) in consts:
                    prog.propagated_constants["%s.%s" % (r[1], r[2])] = True
                    return ast.copy_location(copy.deepcopy(consts[(r[1], r[2])]), n)
                return n

        import copy

        for q, fi in self.functions.items():
            if fi.parent is not None:
                continue  # nested functions are rewritten with their outermost function
            node = fi.node
            shadow = set()
            for x in ast.walk(node):
                if isinstance(x, ast.Name) and isinstance(x.ctx, (ast.Store, ast.Del)):
                    shadow.add(x.id)
                elif isinstance(x, ast.arg):
                    shadow.add(x.arg)
            sub = Sub(fi.module, shadow)
            if isinstance(node, ast.Lambda):
                node.body = sub.visit(node.body)
            else:
                node.body = [sub.visit(st) for st in node.body]

    def resolve_name(self, modname: str, name: str, _depth=0) -> Optional[tuple]:
        """Follow import chains to ('class',q) ('func',q) ('var',mod,name) ('module',m) ('ext',d)."""
        if _depth > 10:
            return None
        b = self.bindings.get(modname, {}).get(name)
        if b is None:
            return None
        if b[0] == "import":
            _, src, n = b
            if src in self.units:
                r = self.resolve_name(src, n, _depth + 1)
                if r is not None:
                    return r
                # `from prov import serializers` - a submodule
                sub = src + "." + n
                if sub in self.units:
                    return ("module", sub)
                return None
            return ("ext", src + "." + n)
        return b

    def resolve_dotted(self, modname: str, node) -> Optional[tuple]:
        """Resolve Name / Attribute chain through modules: prov.model.Literal, pm.Literal, etree.QName."""
        d = dotted(node)
        if d is None:
            return None
        parts = d.split(".")
        cur = self.resolve_name(modname, parts[0])
        if cur is None:
            return None
        for p in parts[1:]:
            if cur[0] == "module":
                sub = cur[1] + "." + p
                if sub in self.units:
                    cur = ("module", sub)
                    continue
                if cur[1] in self.units:
                    nxt = self.resolve_name(cur[1], p)
                    if nxt is None:
                        return None
                    cur = nxt
                    continue
                return None
            if cur[0] == "ext":
                cur = ("ext", cur[1] + "." + p)
                continue
            if cur[0] == "class":
                return ("classattr", cur[1], ".".join(parts[parts.index(p):]))
            return ("attr", cur, ".".join(parts[parts.index(p):]))
        return cur

    def _resolve_base(self, modname, expr) -> str:
        r = self.resolve_dotted(modname, expr)
        if r and r[0] == "class":
            return r[1]
        d = dotted(expr) or ast.dump(expr)
        if r and r[0] == "ext":
            return "EXT:" + r[1]
        return "EXT:" + d

    def mro(self, cls: str) -> List[str]:
        """Linearisation restricted to repository classes (all hierarchies here are single-inheritance
        chains; a diamond would raise)."""
        if cls in self._mro_cache:
            return self._mro_cache[cls]
        out = [cls]
        ci = self.classes[cls]
        repo_bases = [b for b in ci.bases if not b.startswith("EXT:")]
        if len(repo_bases) > 1:
            raise AnalysisError("multiple repository bases not modelled: %s" % cls)
        if repo_bases:
            out += self.mro(repo_bases[0])
        self._mro_cache[cls] = out
        return out

    def ext_bases(self, cls: str) -> List[str]:
        out = []
        for c in self.mro(cls):
            out += [b[4:] for b in self.classes[c].bases if b.startswith("EXT:")]
        return out

    def is_subclass(self, cls: str, base: str) -> bool:
        return cls in self.classes and base in self.mro(cls)

    def subclasses(self, base: str) -> List[str]:
        return [c for c in self.classes if base in self.mro(c)]

    def lookup_method(self, cls: str, name: str) -> Optional[str]:
        for c in self.mro(cls):
            q = self.classes[c].methods.get(name)
            if q:
                return q
        return None

    def class_attr(self, cls: str, name: str) -> Optional[Tuple[str, ast.expr]]:
        for c in self.mro(cls):
            if name in self.classes[c].class_attrs:
                return c, self.classes[c].class_attrs[name]
        return None

    def func(self, qual: str) -> FuncInfo:
        f = self.functions.get(qual)
        if f is None:
            raise AnalysisError("anchor vanished: function %s" % qual)
        return f

    def cls(self, qual: str) -> ClassInfo:
        c = self.classes.get(qual)
        if c is None:
            raise AnalysisError("anchor vanished: class %s" % qual)
        return c

    def unit_of(self, qual_or_mod: str) -> Unit:
        m = qual_or_mod
        while m and m not in self.units:
            m = m.rpartition(".")[0]
        if not m:
            raise AnalysisError("no unit for %s" % qual_or_mod)
        return self.units[m]

    def loc(self, modname: str, node) -> str:
        return "%s:%d" % (self.units[modname].relpath, getattr(node, "lineno", 0))

    def units_evidence(self):
        return [
            {"path": u.relpath, "sha256": u.sha256, "functions": u.n_functions}
            for u in self.units.values()
        ]

    def nested_functions(self, qual: str) -> List[str]:
        return [q for q, f in self.functions.items() if f.parent == qual]

    def enclosing_chain(self, qual: str) -> List[str]:
        out = []
        f = self.functions.get(qual)
        while f is not None and f.parent:
            out.append(f.parent)
            f = self.functions.get(f.parent)
        return out


def norm(node) -> str:
    """Normalised source text of a node (keys of findings; never line numbers)."""
    try:
        return ast.unparse(node)
    except Exception:
        return ast.dump(node)
