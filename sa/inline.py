"""Inlined view of a class: private helper methods that are only called as whole statements (`self._h(..)`, `x = self._h(..)`,
`return self._h(..)`) are substituted into their callers, so that rules which reason about one method body - must-facts on the
CFG, value provenance, pairing of stores - see the same statements whether or not a maintainer extracted a block into a helper.

Only helpers in *tail-return form* are inlined (every `return` is the last thing executed; guard clauses `if c: return x` followed
by more statements are first normalised into if/else).  Helper locals and parameters are renamed apart (`name__hN`); parameters are
bound by explicit assignments; statements keep the source positions of the helper, so reports still point at real lines.
"""
from __future__ import annotations

import ast
import copy
import dataclasses
from typing import Dict, List, Optional

from .loader import AnalysisError, dotted


def _always_returns(stmts) -> bool:
    if not stmts:
        return False
    last = stmts[-1]
    if isinstance(last, (ast.Return, ast.Raise)):
        return True
    if isinstance(last, ast.If):
        return bool(last.orelse) and _always_returns(last.body) and _always_returns(last.orelse)
    return False


def _normalise_guards(stmts: List[ast.stmt]) -> List[ast.stmt]:
    out = []
    for i, st in enumerate(stmts):
        if isinstance(st, ast.Try) and not st.finalbody:
            st.body = _normalise_guards(st.body)
            for h in st.handlers:
                h.body = _normalise_guards(h.body)
            st.orelse = _normalise_guards(st.orelse)
            # try: A / except K: return ..  followed by REST  ==  try: A / except K: return .. / else: REST
            if st.handlers and all(_always_returns(h.body) for h in st.handlers) and not _has_return_list(st.body) and i < len(stmts) - 1:
                st.orelse = st.orelse + _normalise_guards(stmts[i + 1:])
                out.append(st)
                return out
        if isinstance(st, (ast.For, ast.While)) and not st.orelse and _has_return_list(st.body) and _loop_returns_ok(st):
            # search loop:  for ..: if c: return V  / REST   ==   for ..: if c: return V  / else: REST   (no break in the loop, so
            # the else clause runs exactly when the loop runs to its end, which is when REST ran)
            st.orelse = _normalise_guards(stmts[i + 1:])
            st._search_loop = True
            out.append(st)
            return out
        if isinstance(st, ast.If):
            st.body = _normalise_guards(st.body)
            st.orelse = _normalise_guards(st.orelse)
            if not st.orelse and _always_returns(st.body) and i < len(stmts) - 1:
                st.orelse = _normalise_guards(stmts[i + 1:])
                out.append(st)
                return out
        out.append(st)
    return out


def _loop_returns_ok(loop) -> bool:
    """Every return inside the loop is reached through if / with nesting only (a `break` put in its place leaves this very loop),
    and the loop has no break of its own."""
    def ok(stmts):
        for st in stmts:
            if isinstance(st, (ast.Break,)):
                return False
            if isinstance(st, (ast.For, ast.While, ast.Try, ast.FunctionDef, ast.AsyncFunctionDef, ast.ClassDef, ast.Match)):
                if _has_return(st) or isinstance(st, ast.Try) and any(isinstance(x, ast.Break) for x in ast.walk(st)):
                    return False
                continue
            if isinstance(st, ast.If):
                if not ok(st.body) or not ok(st.orelse):
                    return False
            elif isinstance(st, ast.With):
                if not ok(st.body):
                    return False
        return True
    return ok(loop.body)


def _loop_subst(stmts, make):
    out = []
    for st in stmts:
        if isinstance(st, ast.Return):
            rep = make(st.value)
            out.extend(rep)
            if not (rep and isinstance(rep[-1], ast.Return)):
                out.append(ast.copy_location(ast.Break(), st))
            continue
        if isinstance(st, ast.If):
            st.body = _loop_subst(st.body, make) or [ast.copy_location(ast.Pass(), st)]
            st.orelse = _loop_subst(st.orelse, make)
        elif isinstance(st, ast.With):
            st.body = _loop_subst(st.body, make) or [ast.copy_location(ast.Pass(), st)]
        out.append(st)
    return out


def _has_return_list(stmts) -> bool:
    return any(_has_return(x) for x in stmts)


def _has_return(node) -> bool:
    stack = [node]
    while stack:
        n = stack.pop()
        if isinstance(n, ast.Return):
            return True
        if isinstance(n, (ast.FunctionDef, ast.AsyncFunctionDef, ast.Lambda, ast.ClassDef)) and n is not node:
            continue
        stack.extend(ast.iter_child_nodes(n))
    return False


def _tail_only(stmts) -> bool:
    for i, st in enumerate(stmts):
        last = i == len(stmts) - 1
        if not last:
            if _has_return(st):
                return False
            continue
        if isinstance(st, ast.Return):
            return True
        if isinstance(st, ast.If):
            return _tail_only(st.body) and _tail_only(st.orelse)
        if isinstance(st, (ast.For, ast.While)) and getattr(st, "_search_loop", False):
            return _tail_only(st.orelse)
        if isinstance(st, ast.With):
            return _tail_only(st.body)
        if isinstance(st, ast.Try) and not st.finalbody:
            if st.orelse:
                return not _has_return_list(st.body) and all(_tail_only(h.body) for h in st.handlers) and _tail_only(st.orelse)
            return _tail_only(st.body) and all(_tail_only(h.body) for h in st.handlers)
        return not _has_return(st)
    return True


def _subst_returns(stmts, make, need_value):
    """Replace tail returns by make(value_expr) (a list of statements)."""
    if not stmts:
        return make(None) if need_value else []
    out = list(stmts[:-1])
    last = stmts[-1]
    if isinstance(last, ast.Return):
        out.extend(make(last.value))
    elif isinstance(last, ast.If):
        last.body = _subst_returns(last.body, make, need_value) or [ast.copy_location(ast.Pass(), last)]
        last.orelse = _subst_returns(last.orelse, make, need_value)
        out.append(last)
    elif isinstance(last, (ast.For, ast.While)) and getattr(last, "_search_loop", False):
        last.body = _loop_subst(last.body, make) or [ast.copy_location(ast.Pass(), last)]
        last.orelse = _subst_returns(last.orelse, make, need_value)
        out.append(last)
    elif isinstance(last, ast.With):
        last.body = _subst_returns(last.body, make, need_value) or [ast.copy_location(ast.Pass(), last)]
        out.append(last)
    elif isinstance(last, ast.Try) and not last.finalbody:
        if last.orelse:
            last.orelse = _subst_returns(last.orelse, make, need_value)
        else:
            last.body = _subst_returns(last.body, make, need_value) or [ast.copy_location(ast.Pass(), last)]
        for h in last.handlers:
            h.body = _subst_returns(h.body, make, need_value) or [ast.copy_location(ast.Pass(), last)]
        out.append(last)
    else:
        out.append(last)
        if need_value and not isinstance(last, ast.Raise):
            out.extend(make(None))
    return out


class _Renamer(ast.NodeTransformer):
    def __init__(self, mapping):
        self.m = mapping

    def visit_Name(self, n):
        if n.id in self.m:
            return ast.copy_location(ast.Name(id=self.m[n.id], ctx=n.ctx), n)
        return n

    def visit_arg(self, n):
        return n


def _locals_of(fnode):
    names = set()
    a = fnode.args
    for x in a.posonlyargs + a.args + a.kwonlyargs:
        names.add(x.arg)
    for n in ast.walk(fnode):
        if isinstance(n, ast.Name) and isinstance(n.ctx, (ast.Store, ast.Del)):
            names.add(n.id)
        elif isinstance(n, ast.ExceptHandler) and n.name:
            names.add(n.name)
    return names


class Inliner:
    def __init__(self, program, cls_qual: str, max_depth: int = 3, exclude=frozenset()):
        self.p = program
        self.cls = cls_qual
        self.exclude = set(exclude)
        self.module = None  # set for module-level helper functions instead of methods
        self.max_depth = max_depth
        self.counter = 0
        self.not_inlined_calls: Dict[str, int] = {}
        self.inlined_calls: Dict[str, int] = {}

    # ---------------------------------------------------------------- eligibility
    def helper_of(self, call) -> Optional[str]:
        if not isinstance(call, ast.Call):
            return None
        if self.module is not None and not (self.cls and isinstance(call.func, ast.Attribute)):
            if not isinstance(call.func, ast.Name):
                return None
            name = call.func.id
            if not name.startswith("_") or name.startswith("__") or name in self.exclude:
                return None
            q = "%s.%s" % (self.module, name)
            if q not in self.p.functions or self.p.functions[q].cls or self.p.functions[q].parent:
                return None
        else:
            if not (isinstance(call.func, ast.Attribute) and isinstance(call.func.value, ast.Name) and call.func.value.id == "self"):
                return None
            name = call.func.attr
            if not name.startswith("_") or name.startswith("__") or name in self.exclude:
                return None
            q = self.p.lookup_method(self.cls, name)
            if q is None:
                return None
        fi = self.p.functions[q]
        if [d for d in fi.decorators if d != "staticmethod"] or fi.node.args.vararg or fi.node.args.kwarg:
            return None
        if any(isinstance(x, (ast.Yield, ast.YieldFrom, ast.Global, ast.Nonlocal)) for x in ast.walk(fi.node)):
            return None
        return q

    def _body_for(self, q, depth):
        fi = self.p.functions[q]
        body = [s for s in copy.deepcopy(fi.node.body) if not (isinstance(s, ast.Expr) and isinstance(s.value, ast.Constant) and isinstance(s.value.value, str))]
        body = _normalise_guards(body)
        if not _tail_only(body):
            return None
        return body

    def _bind(self, q, call, k):
        fi = self.p.functions[q]
        a = fi.node.args
        params = [x.arg for x in a.posonlyargs + a.args]
        if fi.cls and not fi.is_static:
            params = params[1:]
        defaults = dict(zip(params[len(params) - len(a.defaults):], a.defaults)) if a.defaults else {}
        if any(isinstance(x, ast.Starred) for x in call.args) or any(kw.arg is None for kw in call.keywords):
            return None
        got = {}
        for pn, arg in zip(params, call.args):
            got[pn] = arg
        if len(call.args) > len(params):
            return None
        for kw in call.keywords:
            if kw.arg in params:
                got[kw.arg] = kw.value
            else:
                return None
        for pn in params:
            if pn not in got:
                if pn in defaults:
                    got[pn] = copy.deepcopy(defaults[pn])
                else:
                    return None
        return [(pn, got[pn]) for pn in params]

    # ---------------------------------------------------------------- expansion
    def expand_stmt(self, st, depth, chain):
        """List of statements replacing `st` (itself if nothing is inlined)."""
        call, kind = None, None
        if isinstance(st, ast.Expr) and isinstance(st.value, ast.Call):
            call, kind = st.value, "expr"
        elif isinstance(st, ast.Assign) and len(st.targets) == 1 and isinstance(st.value, ast.Call):
            call, kind = st.value, "assign"
        elif isinstance(st, ast.Return) and isinstance(st.value, ast.Call):
            call, kind = st.value, "return"
        q = self.helper_of(call) if call is not None else None
        if q is None or depth >= self.max_depth or q in chain:
            return None
        body = self._body_for(q, depth)
        binds = self._bind(q, call, 0) if body is not None else None
        if body is None or binds is None:
            return None
        self.counter += 1
        k = self.counter
        fi = self.p.functions[q]
        mapping = {n: "%s__h%d" % (n, k) for n in _locals_of(fi.node) if n != "self"}
        rebound_in_helper = {x.id for x in ast.walk(fi.node) if isinstance(x, ast.Name) and isinstance(x.ctx, (ast.Store, ast.Del))}
        pre = []
        for pn, arg in binds:
            if isinstance(arg, ast.Name) and pn not in rebound_in_helper:
                mapping[pn] = arg.id  # the parameter simply *is* the caller's variable here
                continue
            asg = ast.Assign(targets=[ast.Name(id=mapping[pn], ctx=ast.Store())], value=copy.deepcopy(arg))
            pre.append(ast.fix_missing_locations(ast.copy_location(asg, st)))
        ren = _Renamer(mapping)
        body = [ren.visit(s) for s in body]

        def make(value):
            v = value if value is not None else ast.copy_location(ast.Constant(value=None), st)
            if kind == "expr":
                return [ast.copy_location(ast.Expr(value=v), v)] if value is not None and not isinstance(value, (ast.Name, ast.Constant)) else []
            if kind == "assign":
                return [ast.fix_missing_locations(ast.copy_location(ast.Assign(targets=copy.deepcopy(st.targets), value=v), v if hasattr(v, "lineno") else st))]
            return [ast.fix_missing_locations(ast.copy_location(ast.Return(value=v), v if hasattr(v, "lineno") else st))]

        body = _subst_returns(body, make, need_value=kind != "expr")
        self.inlined_calls[q] = self.inlined_calls.get(q, 0) + 1
        return pre + self.expand_block(body, depth + 1, chain | {q})

    def expand_block(self, stmts, depth, chain):
        out = []
        for st in stmts:
            rep = self.expand_stmt(st, depth, chain)
            if rep is not None:
                out.extend(rep)
                continue
            for fld in ("body", "orelse", "finalbody"):
                sub = getattr(st, fld, None)
                if isinstance(sub, list) and sub and isinstance(sub[0], ast.stmt):
                    setattr(st, fld, self.expand_block(sub, depth, chain))
            if isinstance(st, ast.Try):
                for h in st.handlers:
                    h.body = self.expand_block(h.body, depth, chain)
            out.append(st)
        return out

    def inline_method(self, q):
        fi = self.p.functions[q]
        node = copy.deepcopy(fi.node)
        node.body = self.expand_block(node.body, 0, frozenset({q})) or [ast.Pass()]
        ast.fix_missing_locations(node)
        return node


def inlined_view(ctx, cls_qual: str, exclude=frozenset()):
    """A Ctx whose program shows `cls_qual` with helper calls inlined; helpers whose every call in the package was inlined are
    dropped from the class (their statements are now seen in each caller)."""
    from .ctx import Ctx
    from .fold import Folder

    key = "inlined-view:%s:%s" % (cls_qual, ",".join(sorted(exclude)))
    if key in ctx._cache:
        return ctx._cache[key]
    p = copy.copy(ctx.p)
    p.functions = dict(ctx.p.functions)
    p.classes = dict(ctx.p.classes)
    inl = Inliner(ctx.p, cls_qual, exclude=exclude)  # helpers kept as calls: the rules have a summary for them
    ci = ctx.p.classes[cls_qual]
    new_nodes = {}
    for mname, mq in ci.methods.items():
        new_nodes[mq] = inl.inline_method(mq)
    # call sites of each private helper anywhere in the package that remain after inlining
    remaining: Dict[str, int] = {}
    helper_names = {mname: mq for mname, mq in ci.methods.items() if mname.startswith("_") and not mname.startswith("__")}
    for q, fi in ctx.p.functions.items():
        node = new_nodes.get(q, fi.node)
        for n in ast.walk(node):
            if isinstance(n, ast.Attribute) and n.attr in helper_names:
                remaining[n.attr] = remaining.get(n.attr, 0) + 1
    absorbed = sorted(mq for mname, mq in helper_names.items() if inl.inlined_calls.get(mq) and not remaining.get(mname))
    methods = {m: q for m, q in ci.methods.items() if q not in absorbed}
    p.classes[cls_qual] = dataclasses.replace(ci, methods=methods)
    for mq, node in new_nodes.items():
        if mq in absorbed:
            del p.functions[mq]
        else:
            p.functions[mq] = dataclasses.replace(ctx.p.functions[mq], node=node)
    # nested functions of dropped helpers go too
    for q in list(p.functions):
        par = p.functions[q].parent
        if par in absorbed:
            del p.functions[q]
    view = Ctx.__new__(Ctx)
    view.repo, view.tier, view.p = ctx.repo, ctx.tier, p
    view.f = Folder(p)
    view._spec = ctx._spec
    view._cache = {"inline-info": {"absorbed": absorbed, "inlined_calls": dict(inl.inlined_calls)}}
    ctx._cache[key] = view
    return view


def inlined_module_view(ctx, modname: str, exclude=frozenset()):
    """A Ctx in which the private module-level functions of `modname` that are only called as whole statements are inlined into
    their callers (all functions and methods of that module)."""
    from .ctx import Ctx
    from .fold import Folder

    key = "inlined-module-view:%s:%s" % (modname, ",".join(sorted(exclude)))
    if key in ctx._cache:
        return ctx._cache[key]
    p = copy.copy(ctx.p)
    p.functions = dict(ctx.p.functions)
    inl = Inliner(ctx.p, None, exclude=exclude)
    inl.module = modname
    new_nodes = {}
    for q, fi in ctx.p.functions.items():
        if fi.module == modname and fi.parent is None and not isinstance(fi.node, ast.Lambda):
            new_nodes[q] = inl.inline_method(q)
    helpers = {fi.name: q for q, fi in ctx.p.functions.items() if fi.module == modname and not fi.cls and not fi.parent and fi.name.startswith("_") and not fi.name.startswith("__")}
    remaining: Dict[str, int] = {}
    for q, fi in ctx.p.functions.items():
        if fi.parent is not None and fi.module == modname:
            continue
        node = new_nodes.get(q, fi.node)
        for n in ast.walk(node):
            if isinstance(n, ast.Name) and n.id in helpers and isinstance(n.ctx, ast.Load) and fi.module == modname:
                remaining[n.id] = remaining.get(n.id, 0) + 1
            if isinstance(n, ast.Attribute) and n.attr in helpers:
                remaining[n.attr] = remaining.get(n.attr, 0) + 1
    for st in ctx.p.units[modname].tree.body:
        if not isinstance(st, (ast.FunctionDef, ast.ClassDef)):
            for n in ast.walk(st):
                if isinstance(n, ast.Name) and n.id in helpers:
                    remaining[n.id] = remaining.get(n.id, 0) + 1
    absorbed = sorted(hq for name, hq in helpers.items() if inl.inlined_calls.get(hq) and not remaining.get(name))
    for q, node in new_nodes.items():
        if q in absorbed:
            del p.functions[q]
        else:
            p.functions[q] = dataclasses.replace(ctx.p.functions[q], node=node)
    for q in list(p.functions):
        if p.functions[q].parent in absorbed or (p.functions[q].parent and p.functions[q].parent in new_nodes):
            # nested functions: re-point at the copies inside the rewritten parents is not needed by the rules that use this view
            pass
    view = Ctx.__new__(Ctx)
    view.repo, view.tier, view.p = ctx.repo, ctx.tier, p
    view.f = Folder(p)
    view._spec = ctx._spec
    view._cache = {"inline-info": {"absorbed": absorbed, "inlined_calls": dict(inl.inlined_calls)}}
    ctx._cache[key] = view
    return view


def inlined_function(ctx, q: str, exclude=frozenset()):
    """FuncInfo of `q` with the private helpers it calls as whole statements - methods of its class (`self._h(..)`) and private
    module-level functions of its module (`_h(..)`) - substituted into its body.  Nothing is removed from the program; rules
    anchored on one function use this so that delegating its body to a helper does not hide it."""
    key = "inlined-fn:%s:%s" % (q, ",".join(sorted(exclude)))
    if key in ctx._cache:
        return ctx._cache[key]
    fi = ctx.p.functions[q]
    inl = Inliner(ctx.p, fi.cls, exclude=exclude)
    inl.module = fi.module
    node = inl.inline_method(q)
    out = dataclasses.replace(fi, node=node)
    ctx._cache[key] = out
    return out
