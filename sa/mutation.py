"""Field table and mutation-site scanner (part of E1/E4).

`field_table(ctx, cls)`  - fields assigned in __init__ with the kind of their initialiser.
`mutation_sites(ctx, fields)` - every place in the program where one of the named fields (or a local
alias of it, or of one of its elements) is stored to, deleted from, rebound or mutated through a
container method.  Field names are discovered from the class, never hard-coded by the rules.
"""
from __future__ import annotations

import ast
from dataclasses import dataclass
from typing import Dict, List, Optional, Set

from .ctx import Ctx, walk_function
from .loader import dotted, norm

MUTATORS = {
    "append", "extend", "insert", "remove", "pop", "clear", "sort", "reverse", "add", "update", "discard",
    "setdefault", "popitem", "difference_update", "intersection_update", "symmetric_difference_update",
    "__setitem__", "__delitem__", "appendleft", "extendleft",
}
FRESH_CALLS = {"list", "dict", "set", "tuple", "frozenset", "sorted", "defaultdict", "OrderedDict", "copy", "deepcopy"}


@dataclass
class Field:
    name: str
    kind: str  # OWNED | REF | VALUE | MEMO
    init: str  # normalised initialiser text
    container: str = ""  # list | dict | set | defaultdict(list) | defaultdict(set) | <ClassName> | ''
    node: Optional[ast.AST] = None


def classify_init(ctx: Ctx, cls_qual: str, value: ast.expr, params: Set[str]) -> (str, str):
    fi_mod = ctx.p.classes[cls_qual].module
    if isinstance(value, (ast.List, ast.ListComp)):
        return "OWNED", "list"
    if isinstance(value, (ast.Dict, ast.DictComp)):
        return "OWNED", "dict"
    if isinstance(value, (ast.Set, ast.SetComp)):
        return "OWNED", "set"
    if isinstance(value, ast.Call):
        d = dotted(value.func) or ""
        last = d.rsplit(".", 1)[-1]
        if last in ("list", "dict", "set"):
            return "OWNED", last
        if last == "defaultdict":
            inner = norm(value.args[0]) if value.args else ""
            return "OWNED", "defaultdict(%s)" % inner
        if last == "OrderedDict":
            return "OWNED", "dict"
        r = ctx.p.resolve_dotted(fi_mod, value.func)
        if r and r[0] == "class":
            if r[1] in ("prov.identifier.Namespace", "prov.identifier.QualifiedName", "prov.identifier.Identifier", "prov.model.Literal"):
                return "VALUE", r[1]
            return "OWNED", r[1]
        if last == "str" or last == "int":
            return "VALUE", last
    if isinstance(value, ast.Constant):
        return "VALUE", type(value.value).__name__
    if isinstance(value, ast.Name) and value.id in params:
        return "REF", "param:" + value.id
    if isinstance(value, ast.IfExp):
        k1, c1 = classify_init(ctx, cls_qual, value.body, params)
        k2, c2 = classify_init(ctx, cls_qual, value.orelse, params)
        if k1 == k2:
            return k1, c1 if c1 == c2 else "%s|%s" % (c1, c2)
        if "VALUE" in (k1, k2):
            return (k1, c1) if k2 == "VALUE" else (k2, c2)
    if isinstance(value, ast.Attribute):
        return "REF", "attr:" + norm(value)
    if isinstance(value, ast.Name):
        return "REF", "name:" + value.id
    return "VALUE", norm(value)[:40]


def field_table(ctx: Ctx, cls_qual: str) -> Dict[str, Field]:
    out: Dict[str, Field] = {}
    mq = ctx.p.classes[cls_qual].methods.get("__init__")
    if not mq:
        return out
    fi = ctx.fn(mq)
    params = set(fi.params)
    for n in walk_function(fi.node):
        tgt = val = None
        if isinstance(n, ast.Assign) and len(n.targets) == 1:
            tgt, val = n.targets[0], n.value
        elif isinstance(n, ast.AnnAssign) and n.value is not None:
            tgt, val = n.target, n.value
        if isinstance(tgt, ast.Attribute) and isinstance(tgt.value, ast.Name) and tgt.value.id == "self":
            kind, cont = classify_init(ctx, cls_qual, val, params)
            prev = out.get(tgt.attr)
            if prev is None or (prev.kind == "VALUE" and kind != "VALUE"):
                out[tgt.attr] = Field(tgt.attr, kind, norm(val), cont, n)
    return out


@dataclass
class Site:
    func: str  # qualname of the function containing the site
    node: ast.AST
    field: str
    how: str  # rebind | setitem | delitem | augassign | call:<method> | read-insert
    receiver: str  # normalised text of the object owning the field (self, other, bundle ...)
    depth: int  # 0 = the field container itself, 1 = an element of it (e.g. the per-key set)
    text: str
    via_alias: bool = False

    @property
    def key(self):
        return "%s::%s" % (self.func, self.text)


def _field_access(e, fields, aliases):
    """If expression `e` denotes field F (depth 0) or an element of F (depth>0), return (F, receiver, depth, via_alias)."""
    depth = 0
    cur = e
    while True:
        if isinstance(cur, ast.Attribute) and cur.attr in fields:
            return cur.attr, norm(cur.value), depth, False
        if isinstance(cur, ast.Name) and cur.id in aliases:
            f, recv, d0 = aliases[cur.id]
            return f, recv, depth + d0, True
        if isinstance(cur, ast.Subscript):
            depth += 1
            cur = cur.value
            continue
        if isinstance(cur, ast.Call) and isinstance(cur.func, ast.Attribute) and cur.func.attr in ("get", "setdefault", "values", "items") :
            depth += 1
            cur = cur.func.value
            continue
        return None


def mutation_sites(ctx: Ctx, fields: Set[str], include_reads_of: Set[str] = frozenset(), modules=None) -> List[Site]:
    """`include_reads_of`: fields that are defaultdicts - a subscript *load* on them is a read-insert."""
    sites: List[Site] = []
    for q, fi in ctx.p.functions.items():
        if modules is not None and fi.module not in modules:
            continue
        fnode = fi.node
        # local aliases of a field or of its elements: x = obj.field ; x = obj.field[k] ; for k, x in obj.field.items()
        aliases: Dict[str, tuple] = {}
        changed = True
        rounds = 0
        while changed and rounds < 4:
            changed = False
            rounds += 1
            for n in walk_function(fnode):
                if isinstance(n, ast.Assign) and len(n.targets) == 1 and isinstance(n.targets[0], ast.Name):
                    acc = _field_access(n.value, fields, aliases)
                    if acc and not (isinstance(n.value, ast.Call)):
                        f, recv, d, _ = acc
                        if aliases.get(n.targets[0].id) != (f, recv, d):
                            aliases[n.targets[0].id] = (f, recv, d)
                            changed = True
                elif isinstance(n, (ast.For, ast.comprehension)):
                    it = n.iter
                    tgt = n.target
                    base = it
                    elem_of = None
                    if isinstance(it, ast.Call) and isinstance(it.func, ast.Attribute) and it.func.attr in ("items", "values"):
                        acc = _field_access(it.func.value, fields, aliases)
                        if acc:
                            elem_of = (acc, it.func.attr)
                    else:
                        acc = _field_access(it, fields, aliases)
                        if acc:
                            elem_of = (acc, "iter")
                    if elem_of:
                        (f, recv, d, _), mode = elem_of
                        name = None
                        if mode == "items" and isinstance(tgt, ast.Tuple) and len(tgt.elts) == 2 and isinstance(tgt.elts[1], ast.Name):
                            name = tgt.elts[1].id
                        elif mode == "values" and isinstance(tgt, ast.Name):
                            name = tgt.id
                        elif mode == "iter" and isinstance(tgt, ast.Name) and d >= 0:
                            # iterating a dict yields keys (immutable); iterating a list yields elements
                            name = None
                        if name and aliases.get(name) != (f, recv, d + 1):
                            aliases[name] = (f, recv, d + 1)
                            changed = True
        for n in walk_function(fnode):
            if isinstance(n, (ast.Assign, ast.AnnAssign, ast.AugAssign)):
                targets = n.targets if isinstance(n, ast.Assign) else [n.target]
                flat = []
                for t in targets:
                    flat += list(t.elts) if isinstance(t, (ast.Tuple, ast.List)) else [t]
                for t in flat:
                    if isinstance(t, ast.Attribute) and t.attr in fields:
                        how = "augassign" if isinstance(n, ast.AugAssign) else "rebind"
                        sites.append(Site(q, n, t.attr, how, norm(t.value), 0, norm(n)))
                    elif isinstance(t, ast.Subscript):
                        acc = _field_access(t.value, fields, aliases)
                        if acc:
                            f, recv, d, al = acc
                            sites.append(Site(q, n, f, "augassign" if isinstance(n, ast.AugAssign) else "setitem", recv, d, norm(n), al))
            elif isinstance(n, ast.Delete):
                for t in n.targets:
                    if isinstance(t, ast.Subscript):
                        acc = _field_access(t.value, fields, aliases)
                        if acc:
                            f, recv, d, al = acc
                            sites.append(Site(q, n, f, "delitem", recv, d, norm(n), al))
                    elif isinstance(t, ast.Attribute) and t.attr in fields:
                        sites.append(Site(q, n, t.attr, "rebind", norm(t.value), 0, norm(n)))
            elif isinstance(n, ast.Call) and isinstance(n.func, ast.Attribute) and n.func.attr in MUTATORS:
                acc = _field_access(n.func.value, fields, aliases)
                if acc:
                    f, recv, d, al = acc
                    sites.append(Site(q, n, f, "call:" + n.func.attr, recv, d, norm(n), al))
            elif isinstance(n, ast.Subscript) and isinstance(n.ctx, ast.Load) and include_reads_of:
                if isinstance(n.value, ast.Attribute) and n.value.attr in include_reads_of:
                    sites.append(Site(q, n, n.value.attr, "read-insert", norm(n.value.value), 0, norm(n)))
    return sites


def single_assignment(fnode, name) -> Optional[ast.expr]:
    """The value of the only assignment to local `name` in the function (None if 0 or >1, or a parameter)."""
    vals = []
    for n in walk_function(fnode):
        if isinstance(n, ast.Assign):
            for t in n.targets:
                if isinstance(t, ast.Name) and t.id == name:
                    vals.append(n.value)
                elif isinstance(t, (ast.Tuple, ast.List)) and any(isinstance(e, ast.Name) and e.id == name for e in t.elts):
                    vals.append(None)
        elif isinstance(n, (ast.AugAssign, ast.AnnAssign)) and isinstance(n.target, ast.Name) and n.target.id == name:
            vals.append(None)
        elif isinstance(n, (ast.For, ast.comprehension)):
            if any(isinstance(x, ast.Name) and x.id == name for x in ast.walk(n.target)):
                vals.append(None)
        elif isinstance(n, ast.With):
            for i in n.items:
                if i.optional_vars is not None and any(isinstance(x, ast.Name) and x.id == name for x in ast.walk(i.optional_vars)):
                    vals.append(None)
    if len(vals) == 1 and vals[0] is not None:
        return vals[0]
    return None


def all_assignments(fnode, name) -> List[Optional[ast.expr]]:
    vals = []
    for n in walk_function(fnode):
        if isinstance(n, ast.Assign):
            for t in n.targets:
                if isinstance(t, ast.Name) and t.id == name:
                    vals.append(n.value)
                elif isinstance(t, (ast.Tuple, ast.List)) and any(isinstance(e, ast.Name) and e.id == name for e in t.elts):
                    vals.append(None)
        elif isinstance(n, (ast.AugAssign, ast.AnnAssign)) and isinstance(n.target, ast.Name) and n.target.id == name:
            vals.append(getattr(n, "value", None))
        elif isinstance(n, ast.NamedExpr) and isinstance(n.target, ast.Name) and n.target.id == name:
            vals.append(n.value)  # (name := value)
        elif isinstance(n, (ast.For, ast.comprehension)):
            if any(isinstance(x, ast.Name) and x.id == name for x in ast.walk(n.target)):
                vals.append(None)
    return vals


def resolve_local(fnode, e, depth=0):
    """Follow single-assignment locals: name -> its defining expression."""
    while isinstance(e, ast.Name) and depth < 5:
        v = single_assignment(fnode, e.id)
        if v is None:
            return e
        e = v
        depth += 1
    return e


def is_fresh_expr(fnode, e, fields: Set[str] = frozenset(), depth=0) -> bool:
    """Syntactic FRESH test: literal/comprehension/copying constructor/slice copy/filter over a fresh list."""
    e = resolve_local(fnode, e)
    if isinstance(e, (ast.List, ast.Dict, ast.Set, ast.Tuple, ast.ListComp, ast.DictComp, ast.SetComp, ast.GeneratorExp, ast.Constant, ast.JoinedStr)):
        return True
    if isinstance(e, ast.Call):
        d = (dotted(e.func) or "").rsplit(".", 1)[-1]
        if d in FRESH_CALLS:
            return True
        if d in ("filter", "map", "chain", "reversed", "iter") and e.args:
            return all(is_fresh_expr(fnode, a, fields, depth + 1) for a in e.args[1:] if True) if d in ("filter", "map") else False
        if isinstance(e.func, ast.Attribute) and e.func.attr in ("copy", "values", "keys", "items") and d != "copy":
            return False
        return d == "copy"
    if isinstance(e, ast.Subscript) and isinstance(e.slice, ast.Slice):
        return True
    if isinstance(e, ast.BinOp) and isinstance(e.op, ast.Add):
        return True
    if isinstance(e, ast.IfExp):
        return is_fresh_expr(fnode, e.body, fields, depth + 1) and is_fresh_expr(fnode, e.orelse, fields, depth + 1)
    return False
