"""Driver: /venv/bin/python -m sa.check <property-id> [--tier quick|thorough] [--repo DIR]

Exit 0: every armed rule holds (listed known findings are printed as KNOWN-FINDING lines).
Exit 1: at least one unlisted violation; one `VIOLATION property=<id> replay=<path>` line each.
Exit 2: ANALYSIS-ERROR (unit does not parse, anchor vanished, construct cannot be interpreted,
        rule below its vacuity floor).  Never a verdict.
"""
from __future__ import annotations

import argparse
import json
import os
import sys
import time
import traceback

from .loader import AnalysisError
from .report import EVIDENCE_DIR, Finding, Rule, RuleResult, load_known, write_evidence

ASSUMPTIONS = [
    "static analysis only: prov is never imported or executed; every verdict is over all paths of the analysed functions",
    "no monkey-patching / setattr / exec / eval / __dict__ writes in src/prov (census rule G0 fails the run otherwise)",
    "external libraries (lxml, rdflib, json, dateutil, pydot, networkx, io, os, shutil, tempfile) behave as in the signature table sa/extsig.py",
    "specification tables under sa/spec were written from the W3C documents (trusted base)",
    "declared immutable value classes: Namespace, Identifier, QualifiedName, Literal",
]


def registry():
    from . import rules

    return rules.all_rules()


def run_property(prop, tier="quick", repo="/repo", evidence_dir=None, quiet=False, write=True):
    """Returns (exit_code, findings, rules_out).  Prints the protocol lines unless quiet."""
    from .ctx import Ctx

    t0 = time.time()
    seed = int(os.environ.get("VERIF_SEED", "0") or 0)
    out_lines = []

    def emit(s):
        out_lines.append(s)
        if not quiet:
            print(s)

    try:
        reg = registry()
        if prop not in reg:
            raise AnalysisError("no rules registered for %s" % prop)
        ctx = Ctx(repo=repo, tier=tier)
        ctx.property_id = prop
        from .rules import census

        census.check_dynamic_features(ctx)
        rules_out = []
        findings = []
        notes = []
        rule_errors = []
        for rule in reg[prop]["rules"]:
            if rule.family == "thorough-only" and tier != "thorough":
                continue
            # a rule that cannot find its anchors makes the run analysis-broken (exit 2) - but it must not hide what the
            # other rules of the property do find: they still run, and an unlisted finding of theirs is reported (exit 1)
            try:
                res: RuleResult = rule.fn(ctx, rule)
                n = len(res.instances)
                if n < rule.floor:
                    raise AnalysisError(
                        "rule %s found %d instance(s), below its floor %d: an anchor vanished" % (rule.id, n, rule.floor)
                    )
            except AnalysisError as e:
                rule_errors.append("%s: %s" % (rule.id, e))
                continue
            seen_keys = {f.key for f in findings}
            uniq = []
            for fnd in res.findings:
                fnd.rule = rule.id
                if fnd.key not in seen_keys:
                    seen_keys.add(fnd.key)
                    uniq.append(fnd)
            res.findings = uniq
            findings.extend(uniq)
            notes.extend("%s: %s" % (rule.id, x) for x in res.notes)
            rules_out.append(
                {
                    "id": rule.id,
                    "title": rule.title,
                    "family": rule.family,
                    "decides": rule.decides,
                    "floor": rule.floor,
                    "instances": n,
                    "sites": res.instances,
                    "nontrivial_sites": res.nontrivial,
                    "exceptions": res.exceptions,
                    "findings": [f.key for f in res.findings],
                    "samples": res.samples,
                }
            )
        known, fixed = load_known()
        known_p = known.get(prop, {})
        unlisted = [f for f in findings if f.key not in known_p]
        listed = [f for f in findings if f.key in known_p]
        for n in notes:
            emit("NOTE: property=%s %s" % (prop, n))
        for f in listed:
            emit("KNOWN-FINDING: property=%s %s at %s :: %s" % (prop, f.key, f.loc, known_p[f.key]))
        stale = [k for k in known_p if k not in {f.key for f in findings}]
        for k in stale:
            emit("NOTE: property=%s known finding no longer reproduced (kept in KNOWN_FINDINGS.txt): %s" % (prop, k))
        edir = evidence_dir or EVIDENCE_DIR
        replay_paths = []
        if unlisted:
            os.makedirs(os.path.join(edir, "replay"), exist_ok=True)
        for i, f in enumerate(unlisted):
            rp = os.path.join(edir, "replay", "%s-%d.json" % (prop, i))
            with open(rp, "w", encoding="utf-8") as fh:
                json.dump(
                    {"property": prop, "rule": f.rule, "construct": f.construct, "key": f.key, "loc": f.loc,
                     "message": f.message, "witness": f.witness, "repo": repo,
                     "replay": "/venv/bin/python -m sa.check %s --replay %s" % (prop, rp)},
                    fh, indent=1)
            replay_paths.append(rp)
            emit("FINDING %s at %s: %s%s" % (f.key, f.loc, f.message, (" | witness: " + f.witness) if f.witness else ""))
            emit("VIOLATION property=%s replay=%s" % (prop, rp))
        for e in rule_errors:
            emit("ANALYSIS-ERROR property=%s %s" % (prop, e))
        if rule_errors and not unlisted:
            return 2, findings, rules_out
        extra = {}
        if tier == "thorough" and reg[prop].get("thorough"):
            extra = reg[prop]["thorough"](ctx, emit) or {}
        if write:
            write_evidence(
                prop, tier, seed, t0, rules_out, ctx.p.units_evidence(),
                extra=dict(extra, known_findings=[f.key for f in listed], notes=notes[:50],
                           functions_in_program=len(ctx.p.functions), classes_in_program=len(ctx.p.classes)),
                violations=len(unlisted), assumptions=ASSUMPTIONS,
                explanation=reg[prop]["explanation"], evidence_dir=edir,
            )
        n_ob = sum(r["instances"] for r in rules_out)
        emit("property=%s tier=%s rules=%d obligations=%d findings=%d known=%d unlisted=%d wall=%.2fs"
             % (prop, tier, len(rules_out), n_ob, len(findings), len(listed), len(unlisted), time.time() - t0))
        return (1 if unlisted else 0), findings, rules_out
    except AnalysisError as e:
        emit("ANALYSIS-ERROR property=%s %s" % (prop, e))
        return 2, [], []
    except Exception as e:  # a traceback must never look like a violation
        emit("ANALYSIS-ERROR property=%s internal error: %s: %s" % (prop, type(e).__name__, e))
        if not quiet:
            traceback.print_exc(file=sys.stderr)
        return 2, [], []


def replay(prop, path, repo):
    with open(path, encoding="utf-8") as fh:
        r = json.load(fh)
    code, findings, _ = run_property(prop, "quick", repo, quiet=True, write=False)
    if code == 2:
        print("ANALYSIS-ERROR during replay")
        return 2
    hit = [f for f in findings if f.key == r["key"]]
    if hit:
        f = hit[0]
        print("REPRODUCED %s at %s: %s" % (f.key, f.loc, f.message))
        print("VIOLATION property=%s replay=%s" % (prop, path))
        return 1
    print("not reproduced on the current tree: %s" % r["key"])
    return 0


def main(argv=None):
    ap = argparse.ArgumentParser(prog="sa.check")
    ap.add_argument("property")
    ap.add_argument("--tier", default=os.environ.get("VERIF_TIER", "quick"), choices=["quick", "thorough"])
    ap.add_argument("--repo", default=os.environ.get("SA_REPO", "/repo"))
    ap.add_argument("--replay", default=None)
    ap.add_argument("--evidence-dir", default=None)
    a = ap.parse_args(argv)
    if a.replay:
        return replay(a.property, a.replay, a.repo)
    code, _, _ = run_property(a.property, a.tier, a.repo, a.evidence_dir)
    return code


if __name__ == "__main__":
    sys.exit(main())
