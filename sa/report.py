"""Findings, known findings, evidence files, exit codes (DESIGN section 5)."""
from __future__ import annotations

import json
import os
import re
import time
from dataclasses import dataclass, field
from typing import Callable, Dict, List, Optional

from .loader import AnalysisError

VERIF = os.path.dirname(os.path.dirname(os.path.abspath(__file__)))
KNOWN_FILE = os.path.join(VERIF, "KNOWN_FINDINGS.txt")
EVIDENCE_DIR = os.path.join(VERIF, "evidence")


@dataclass
class Finding:
    rule: str  # e.g. C05.R1
    construct: str  # stable construct key: module::qualname::normalised fact (never a line number)
    loc: str  # file:line for the human
    message: str
    witness: str = ""  # shape of the failing input / history

    @property
    def key(self):
        return "%s|%s" % (self.rule, self.construct)


@dataclass
class RuleResult:
    instances: List[str] = field(default_factory=list)  # every obligation examined (site descriptions)
    nontrivial: List[str] = field(default_factory=list)  # those with a non-trivial obligation
    findings: List[Finding] = field(default_factory=list)
    notes: List[str] = field(default_factory=list)
    exceptions: List[str] = field(default_factory=list)
    samples: List[dict] = field(default_factory=list)

    def ob(self, desc: str, nontrivial: bool = True):
        self.instances.append(desc)
        if nontrivial:
            self.nontrivial.append(desc)

    def fail(self, rule, construct, loc, message, witness=""):
        self.findings.append(Finding(rule, construct, loc, message, witness))


@dataclass
class Rule:
    id: str
    title: str
    floor: int  # minimum number of instances that must be found (vacuity floor)
    fn: Callable  # fn(ctx, rule) -> RuleResult
    family: str = ""
    decides: str = ""


def load_known():
    known: Dict[str, Dict[str, str]] = {}
    fixed = []
    if not os.path.isfile(KNOWN_FILE):
        return known, fixed
    for line in open(KNOWN_FILE, encoding="utf-8"):
        line = line.strip()
        if not line or line.startswith("#"):
            continue
        m = re.match(r"known:\s+property=(\S+)\s+key=(.+?)\s+::\s+(.*)$", line)
        if m:
            known.setdefault(m.group(1), {})[m.group(2).strip()] = m.group(3)
            continue
        m = re.match(r"fixed:\s+property=(\S+)\s+(\S+)\s+(.*)$", line)
        if m:
            fixed.append((m.group(1), m.group(2), m.group(3)))
    return known, fixed


def write_evidence(prop, tier, seed, t0, rules_out, units, extra=None, violations=0, assumptions=None,
                   explanation="", evidence_dir=None):
    evaluations = sum(len(r["sites"]) for r in rules_out)
    distinct = len({s for r in rules_out for s in r["nontrivial_sites"]})
    samples = []
    for r in rules_out:
        for s in r.get("samples", [])[:3]:
            samples.append(dict(rule=r["id"], **s) if isinstance(s, dict) else {"rule": r["id"], "site": s})
        if not r.get("samples") and r["sites"]:
            samples.append({"rule": r["id"], "site": r["sites"][0]})
    cov = {
        "explanation": explanation,
        "evaluations": evaluations,
        "distinct_nontrivial": distinct,
        "rule": "one evaluation = one (rule, site) obligation decided from the syntax trees of the current "
        "/repo working tree; distinct_nontrivial counts distinct sites that carry a real obligation "
        "(the site touches the governed state / table cell / path), as opposed to census entries",
        "samples": samples[:40],
        "units": units,
        "rules": [
            {k: v for k, v in r.items() if k not in ("samples", "nontrivial_sites")}
            | {"nontrivial": len(set(r["nontrivial_sites"]))}
            for r in rules_out
        ],
        "exhaustive": True,
    }
    if extra:
        cov.update(extra)
    ev = {
        "property_id": prop,
        "tier": tier,
        "seed": seed,
        "level": "other",
        "coverage": cov,
        "assumptions": assumptions or [],
        "wall_s": round(time.time() - t0, 3),
        "violations": violations,
    }
    d = evidence_dir or EVIDENCE_DIR
    os.makedirs(d, exist_ok=True)
    tmp = os.path.join(d, "%s.json.tmp" % prop)
    with open(tmp, "w", encoding="utf-8") as fh:
        json.dump(ev, fh, indent=1, sort_keys=False, default=str)
    os.replace(tmp, os.path.join(d, "%s.json" % prop))
    return ev
