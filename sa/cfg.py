"""E3 - statement-level control-flow graph, dominance, path queries, forward must-dataflow.

Nodes are statements (compound statements contribute a header node: the `if`/`while` test,
the `for` iteration step, the `with` entry, the `try` entry).  Edges carry a label:
  next | true | false | iter | done | back | break | continue | return | raise | exc
`exc` edges go from any statement that contains a call / subscript / attribute access (may raise)
to the innermost enclosing handler, or to the function's exceptional sink RAISE.
`finally` bodies are instantiated twice (normal continuation / exceptional continuation).
"""
from __future__ import annotations

import ast
from typing import Callable, Dict, Iterable, List, Optional, Set, Tuple


class Node:
    __slots__ = ("id", "kind", "stmt", "succ", "pred", "tag")

    def __init__(self, nid, kind, stmt=None, tag=""):
        self.id = nid
        self.kind = kind  # entry | exit | raise | stmt | test | loop | with | try | handler | join
        self.stmt = stmt
        self.succ: List[Tuple["Node", str]] = []
        self.pred: List[Tuple["Node", str]] = []
        self.tag = tag

    @property
    def lineno(self):
        return getattr(self.stmt, "lineno", 0)

    def __repr__(self):
        s = ""
        if self.stmt is not None:
            try:
                s = ast.unparse(self.stmt).split("\n")[0][:60]
            except Exception:
                s = type(self.stmt).__name__
        return "<%d %s%s %s>" % (self.id, self.kind, ("/" + self.tag) if self.tag else "", s)


def may_raise(stmt) -> bool:
    """Conservative: any call, subscript, attribute access, binary op, or explicit raise may raise."""
    if isinstance(stmt, (ast.Pass, ast.Break, ast.Continue, ast.Global, ast.Nonlocal)):
        return False
    nodes = [stmt.test] if isinstance(stmt, (ast.If, ast.While)) else (
        [stmt.iter] if isinstance(stmt, ast.For) else (
            [i.context_expr for i in stmt.items] if isinstance(stmt, ast.With) else [stmt]))
    for root in nodes:
        for n in ast.walk(root):
            if isinstance(n, (ast.Call, ast.Subscript, ast.Attribute, ast.BinOp, ast.Raise, ast.Await, ast.Yield, ast.YieldFrom)):
                return True
    return isinstance(stmt, ast.For)  # iteration itself may raise


class CFG:
    def __init__(self, fnode):
        self.fnode = fnode
        self.nodes: List[Node] = []
        self.entry = self._new("entry")
        self.exit = self._new("exit")  # normal return (explicit or falling off the end)
        self.raise_exit = self._new("raise")  # exceptional exit
        self._loop_stack: List[Tuple[Node, Node]] = []  # (continue target, break target)
        self._handler_stack: List[List[Node]] = []  # innermost last: entry nodes that may catch
        self._finally_stack: List[list] = []
        ends = self._block(fnode.body, [(self.entry, "next")])
        for n, lab in ends:
            self._edge(n, self.exit, lab if lab != "next" else "fall")
        self.by_stmt: Dict[int, List[Node]] = {}
        for n in self.nodes:
            if n.stmt is not None:
                self.by_stmt.setdefault(id(n.stmt), []).append(n)

    # ------------------------------------------------------------------ construction
    def _new(self, kind, stmt=None, tag=""):
        n = Node(len(self.nodes), kind, stmt, tag)
        self.nodes.append(n)
        return n

    def _edge(self, a: Node, b: Node, label: str):
        a.succ.append((b, label))
        b.pred.append((a, label))

    def _connect(self, frontier, node):
        for n, lab in frontier:
            self._edge(n, node, lab)

    def _exc_targets(self) -> List[Node]:
        if self._handler_stack:
            return self._handler_stack[-1]
        return [self.raise_exit]

    def _add_exc(self, node):
        if node.stmt is not None and may_raise(node.stmt):
            for t in self._exc_targets():
                self._edge(node, t, "exc")

    def _block(self, stmts, frontier):
        """Adds the statements; `frontier` is a list of (node, label) dangling edges.  Returns the new frontier."""
        for s in stmts:
            if not frontier:
                # unreachable code after return/raise/continue/break: still build it (detached) so that
                # rules can find the nodes, but nothing flows in
                pass
            frontier = self._stmt(s, frontier)
        return frontier

    def _stmt(self, s, frontier):
        if isinstance(s, ast.If):
            t = self._new("test", s)
            self._connect(frontier, t)
            self._add_exc(t)
            body_end = self._block(s.body, [(t, "true")])
            else_end = self._block(s.orelse, [(t, "false")]) if s.orelse else [(t, "false")]
            return body_end + else_end
        if isinstance(s, (ast.For, ast.AsyncFor, ast.While)):
            h = self._new("loop", s)
            self._connect(frontier, h)
            self._add_exc(h)
            after = self._new("join", None, "after-loop")
            self._loop_stack.append((h, after))
            body_end = self._block(s.body, [(h, "iter" if not isinstance(s, ast.While) else "true")])
            self._loop_stack.pop()
            for n, lab in body_end:
                self._edge(n, h, "back")
            done = [(h, "done" if not isinstance(s, ast.While) else "false")]
            if isinstance(s, ast.While) and isinstance(s.test, ast.Constant) and s.test.value is True:
                done = []
            else_end = self._block(s.orelse, done) if s.orelse else done
            self._connect(else_end, after)
            return [(after, "next")]
        if isinstance(s, (ast.With, ast.AsyncWith)):
            w = self._new("with", s)
            self._connect(frontier, w)
            self._add_exc(w)
            return self._block(s.body, [(w, "next")])
        if isinstance(s, ast.Try):
            return self._try(s, frontier)
        if isinstance(s, ast.Return):
            n = self._new("stmt", s)
            self._connect(frontier, n)
            self._add_exc(n)
            self._leave(n, "return", self.exit)
            return []
        if isinstance(s, ast.Raise):
            n = self._new("stmt", s)
            self._connect(frontier, n)
            for t in self._exc_targets():
                self._edge(n, t, "raise")
            return []
        if isinstance(s, ast.Break):
            n = self._new("stmt", s)
            self._connect(frontier, n)
            if self._loop_stack:
                self._edge(n, self._loop_stack[-1][1], "break")
            return []
        if isinstance(s, ast.Continue):
            n = self._new("stmt", s)
            self._connect(frontier, n)
            if self._loop_stack:
                self._edge(n, self._loop_stack[-1][0], "continue")
            return []
        if isinstance(s, (ast.FunctionDef, ast.AsyncFunctionDef, ast.ClassDef)):
            n = self._new("stmt", s, "def")
            self._connect(frontier, n)
            return [(n, "next")]
        n = self._new("stmt", s)
        self._connect(frontier, n)
        self._add_exc(n)
        return [(n, "next")]

    def _leave(self, node, label, target):
        """return / from inside try-finally: run the pending finally bodies first (modelled by routing
        through a copy of each enclosing finalbody)."""
        cur = [(node, label)]
        for fin in reversed(self._finally_stack):
            saved_handlers = self._handler_stack
            self._handler_stack = fin[1]
            saved_fin = self._finally_stack
            self._finally_stack = fin[2]
            cur = self._block(fin[0], cur)
            self._handler_stack = saved_handlers
            self._finally_stack = saved_fin
        for n, lab in cur:
            self._edge(n, target, lab if lab != "next" else label)

    def _try(self, s: ast.Try, frontier):
        t = self._new("try", s)
        self._connect(frontier, t)
        outer_handlers = list(self._handler_stack)
        outer_finally = list(self._finally_stack)
        handler_entries = [self._new("handler", h) for h in s.handlers]
        # where does an exception inside the body go?
        exc_fin_entry = None
        if s.finalbody:
            exc_fin_entry = self._new("join", None, "finally-exc")
        catch_all = any(h.type is None or (isinstance(h.type, ast.Name) and h.type.id in ("Exception", "BaseException")) for h in s.handlers)
        body_targets = list(handler_entries)
        if not catch_all:
            body_targets.append(exc_fin_entry if exc_fin_entry is not None else None)
        body_targets = [x for x in body_targets if x is not None]
        if not catch_all and exc_fin_entry is None:
            body_targets += self._exc_targets()
        self._handler_stack = outer_handlers + [body_targets]
        if s.finalbody:
            self._finally_stack = outer_finally + [(s.finalbody, outer_handlers, outer_finally)]
        body_end = self._block(s.body, [(t, "next")])
        # else clause runs after a normal body; its exceptions are not caught by these handlers
        h_targets = [exc_fin_entry] if exc_fin_entry is not None else (outer_handlers[-1] if outer_handlers else [self.raise_exit])
        self._handler_stack = outer_handlers + [h_targets]
        if s.orelse:
            body_end = self._block(s.orelse, body_end)
        handler_ends = []
        for hn, h in zip(handler_entries, s.handlers):
            handler_ends += self._block(h.body, [(hn, "next")])
        self._handler_stack = outer_handlers
        self._finally_stack = outer_finally
        normal = body_end + handler_ends
        if s.finalbody:
            normal_end = self._block(s.finalbody, normal)
            # exceptional copy: finally body, then re-raise
            exc_end = self._block(s.finalbody, [(exc_fin_entry, "next")])
            for n, lab in exc_end:
                for tgt in self._exc_targets():
                    self._edge(n, tgt, "raise")
            return normal_end
        return normal

    # ------------------------------------------------------------------ queries
    def nodes_of(self, stmt) -> List[Node]:
        return self.by_stmt.get(id(stmt), [])

    def node_containing(self, astnode) -> List[Node]:
        """CFG nodes whose statement (header expression for compound statements) contains `astnode`."""
        out = []
        for n in self.nodes:
            if n.stmt is None:
                continue
            roots = header_exprs(n.stmt)
            for r in roots:
                if any(x is astnode for x in ast.walk(r)):
                    out.append(n)
                    break
        return out

    def reachable(self, start: Node, labels_excluded: Iterable[str] = (), avoid: Optional[Callable[[Node], bool]] = None,
                  edge_ok: Optional[Callable[[Node, Node, str], bool]] = None) -> Set[int]:
        excl = set(labels_excluded)
        seen = {start.id}
        stack = [start]
        while stack:
            n = stack.pop()
            for m, lab in n.succ:
                if lab in excl or m.id in seen:
                    continue
                if edge_ok is not None and not edge_ok(n, m, lab):
                    continue
                if avoid is not None and avoid(m):
                    continue
                seen.add(m.id)
                stack.append(m)
        return seen

    def exists_path(self, a: Node, b: Node, avoid=None, labels_excluded=(), edge_ok=None) -> bool:
        """Is there a path a ->+ b (at least one edge) that avoids nodes satisfying `avoid` (b itself exempt)?"""
        excl = set(labels_excluded)
        seen = set()
        stack = [a]
        while stack:
            n = stack.pop()
            for m, lab in n.succ:
                if lab in excl:
                    continue
                if edge_ok is not None and not edge_ok(n, m, lab):
                    continue
                if m is b:
                    return True
                if m.id in seen or (avoid is not None and avoid(m)):
                    continue
                seen.add(m.id)
                stack.append(m)
        return False

    def find_path(self, a: Node, b: Node, avoid=None, labels_excluded=(), edge_ok=None) -> Optional[List[Tuple[Node, str]]]:
        excl = set(labels_excluded)
        prev = {}
        stack = [a]
        seen = {a.id}
        while stack:
            n = stack.pop(0)
            for m, lab in n.succ:
                if lab in excl or (edge_ok is not None and not edge_ok(n, m, lab)):
                    continue
                if m is b:
                    path = [(m, lab)]
                    cur = n
                    while cur is not a:
                        p, l = prev[cur.id]
                        path.append((cur, l))
                        cur = p
                    path.append((a, ""))
                    return list(reversed(path))
                if m.id in seen or (avoid is not None and avoid(m)):
                    continue
                seen.add(m.id)
                prev[m.id] = (n, lab)
                stack.append(m)
        return None

    def dominators(self, labels_excluded=()) -> Dict[int, Set[int]]:
        excl = set(labels_excluded)
        reach = self.reachable(self.entry, excl)
        ids = sorted(reach)
        dom = {i: set(ids) for i in ids}
        dom[self.entry.id] = {self.entry.id}
        changed = True
        while changed:
            changed = False
            for i in ids:
                if i == self.entry.id:
                    continue
                preds = [p.id for p, lab in self.nodes[i].pred if lab not in excl and p.id in reach]
                if not preds:
                    continue
                new = set.intersection(*(dom[p] for p in preds)) | {i}
                if new != dom[i]:
                    dom[i] = new
                    changed = True
        return dom

    def must_forward(self, gen_edge: Callable[[Node, Node, str], Set], kill_node: Callable[[Node, Set], Set], universe: Set,
                     labels_excluded=()) -> Dict[int, Set]:
        """Forward must-analysis.  IN[n] = intersection over incoming edges (p,n,l) of (OUT[p] + gen_edge(p,n,l));
        OUT[n] = kill_node(n, IN[n]).  Returns IN per node id."""
        excl = set(labels_excluded)
        reach = self.reachable(self.entry, excl)
        IN = {i: set(universe) for i in reach}
        OUT = {i: set(universe) for i in reach}
        IN[self.entry.id] = set()
        OUT[self.entry.id] = kill_node(self.entry, set())
        work = [i for i in sorted(reach) if i != self.entry.id]
        changed = True
        while changed:
            changed = False
            for i in work:
                n = self.nodes[i]
                acc = None
                for p, lab in n.pred:
                    if lab in excl or p.id not in reach:
                        continue
                    s = OUT[p.id] | gen_edge(p, n, lab)
                    acc = s if acc is None else (acc & s)
                acc = acc if acc is not None else set()
                if acc != IN[i]:
                    IN[i] = acc
                    changed = True
                o = kill_node(n, set(acc))
                if o != OUT[i]:
                    OUT[i] = o
                    changed = True
        return IN


def header_exprs(stmt) -> list:
    """Expressions evaluated *at* the CFG node of a statement (not those of nested bodies)."""
    if isinstance(stmt, (ast.If, ast.While)):
        return [stmt.test]
    if isinstance(stmt, (ast.For, ast.AsyncFor)):
        return [stmt.iter, stmt.target]
    if isinstance(stmt, (ast.With, ast.AsyncWith)):
        return [i.context_expr for i in stmt.items] + [i.optional_vars for i in stmt.items if i.optional_vars is not None]
    if isinstance(stmt, ast.Try):
        return []
    if isinstance(stmt, ast.ExceptHandler):
        return [stmt.type] if stmt.type is not None else []
    if isinstance(stmt, (ast.FunctionDef, ast.AsyncFunctionDef, ast.ClassDef)):
        return list(stmt.decorator_list)
    return [stmt]


def build(fnode) -> CFG:
    return CFG(fnode)
