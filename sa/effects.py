"""E4 - class-set inference, call resolution, interprocedural effect / retention / freshness summaries.

For every function the analysis computes, to a whole-program fixpoint:
  effects  : set of (root, klass, detail, site)  root in {'self', <param name>, 'global:<name>'}
             klass in CONTENT | NS | NS-RESOLVE | EMPTY-INSERT | MEMO | LINK | GLOBAL-TABLE | OTHER
  retains  : {param: how}      the parameter object is stored (by reference) into state reachable from another root
  ret_roots: roots the return value may alias;  ret_fresh: the return value is a new object on every path
  ret_types: repository classes (or 'EXT') the return value may be an instance of
Receivers are resolved with inferred class sets; an unknown receiver falls back to class-hierarchy
analysis by method name over all repository classes (a may-call over-approximation: sound for
"no effect" claims).  Builtin container mutators on a receiver mutate that receiver's roots.
"""
from __future__ import annotations

import ast
from dataclasses import dataclass, field
from typing import Dict, List, Optional, Set, Tuple

from .ctx import Ctx, walk_function
from .ctx import local_names as _local_names
from .fold import ClassRef, is_unknown
from .loader import AnalysisError, dotted, norm
from .mutation import FRESH_CALLS, MUTATORS, field_table

M = "prov.model"
NSM = M + ".NamespaceManager"
IMMUTABLE = {"prov.identifier.Namespace", "prov.identifier.Identifier", "prov.identifier.QualifiedName", "prov.model.Literal"}
MEMO_FIELDS = {("prov.identifier.Namespace", "_cache"), ("prov.serializers.provjson.AnonymousIDGenerator", "_cache"),
               ("prov.serializers.provjson.AnonymousIDGenerator", "_count"), ("prov.serializers.provrdf.AnonymousIDGenerator", "_cache"),
               ("prov.serializers.provrdf.AnonymousIDGenerator", "_count")}
EXT = "EXT"
IMM = "IMM"
IMM_ATTRS = {"uri", "_uri", "prefix", "_prefix", "localpart", "_localpart", "_str", "langtag", "_langtag", "lineno"}
IMM_CALLS = {"str", "int", "float", "bool", "repr", "len", "isoformat", "lower", "upper", "strip", "rstrip", "lstrip", "format", "join", "replace", "encode", "decode", "hash", "isinstance", "hasattr", "startswith", "endswith", "getvalue", "id"}
HOP = "\u2192"
REF_FIELDS = {"_bundle", "_document", "parent", "document"}


def hop(root, fld):
    if root.count(HOP) >= 2:
        return root
    return root + HOP + fld


def base_of(root):
    return root.split(HOP)[0]
PURE_BUILTINS = {"str", "int", "float", "bool", "len", "isinstance", "hasattr", "repr", "type", "print", "max", "min", "hash", "id",
                 "any", "all", "enumerate", "zip", "range", "iter", "next", "getattr", "sum", "abs", "ord", "chr", "format", "issubclass", "callable"}
BUILTIN_READERS = {"get", "items", "keys", "values", "copy", "index", "count", "join", "split", "startswith", "endswith", "lower", "upper",
                   "strip", "rstrip", "lstrip", "replace", "format", "encode", "decode", "isoformat", "read", "getvalue", "seek", "close",
                   "write", "find", "isspace", "union", "intersection", "issubset"}


@dataclass
class Summary:
    effects: Set[tuple] = field(default_factory=set)  # (root, klass, detail)
    sites: Dict[tuple, tuple] = field(default_factory=dict)  # effect -> (func qual, ast node) of one witnessing site
    via: Dict[tuple, str] = field(default_factory=dict)  # effect -> callee it came through ('' = direct)
    retains: Dict[str, str] = field(default_factory=dict)
    ret_roots: Set[str] = field(default_factory=set)
    ret_elem_roots: Set[str] = field(default_factory=set)
    ret_hold: int = 99
    ret_fresh: bool = True
    ret_types: Set[str] = field(default_factory=set)
    unresolved: List[str] = field(default_factory=list)
    calls: Set[str] = field(default_factory=set)


def field_effect_class(ctx: Ctx, fld: str) -> str:
    if fld in ("_records", "_id_map", "_bundles", "_attributes") or fld in (ctx.field_named(M + ".ProvDocument", "bundles", "_bundles"), ctx.field_named(M + ".ProvBundle", "records", "_records")):
        return "CONTENT"
    if fld in ("_identifier", "_document", "_bundle", "parent", "document"):
        return "LINK"
    nf = field_table(ctx, NSM)
    if fld in nf or fld == "_namespaces":
        return "NS"
    return "OTHER"


class Effects:
    def __init__(self, ctx: Ctx):
        self.ctx = ctx
        self.p = ctx.p
        self.sum: Dict[str, Summary] = {q: Summary() for q in self.p.functions}
        self.param_types: Dict[str, Dict[str, Set[str]]] = {q: {} for q in self.p.functions}
        self.properties: Dict[str, List[str]] = {}  # property name -> getter quals
        for q, fi in self.p.functions.items():
            if fi.is_property:
                self.properties.setdefault(fi.name, []).append(q)
        self.method_index: Dict[str, List[str]] = {}
        for c in self.p.classes.values():
            for name, q in c.methods.items():
                self.method_index.setdefault(name, [])
                if q not in self.method_index[name]:
                    self.method_index[name].append(q)
        self.field_classes: Dict[str, Set[str]] = {}  # field name -> classes declaring it
        self.field_elem_types = {
            "_records": {M + ".ProvRecord"}, "_bundles": {M + ".ProvBundle"}, "_id_map": {M + ".ProvRecord"},
            "_namespaces": {NSM}, "_bundle": {M + ".ProvBundle"}, "_document": {M + ".ProvDocument"}, "document": {M + ".ProvDocument"},
            "parent": {NSM}, "bundles": {M + ".ProvBundle"},
            "namespace": {"prov.identifier.Namespace"}, "_namespace": {"prov.identifier.Namespace"}, "_default": {"prov.identifier.Namespace"},
            "identifier": {"prov.identifier.QualifiedName"}, "_identifier": {"prov.identifier.QualifiedName"},
        }
        self.field_elem_types.setdefault(ctx.field_named(M + ".ProvDocument", "bundles", "_bundles"), {M + ".ProvBundle"})
        self.field_elem_types.setdefault(ctx.field_named(M + ".ProvBundle", "records", "_records"), {M + ".ProvRecord"})
        self.defaultdict_fields = set()
        for cq in self.p.classes:
            for f in field_table(ctx, cq).values():
                self.field_classes.setdefault(f.name, set()).add(cq)
                if f.container.startswith("defaultdict"):
                    self.defaultdict_fields.add(f.name)
        self.reflective: List[str] = []
        self.ref_alias: Dict[tuple, str] = {}
        for cq in self.p.classes:
            for f in field_table(ctx, cq).values():
                if f.name in REF_FIELDS and f.kind == "REF" and f.container.startswith("param:"):
                    self.ref_alias[(cq, f.name)] = f.container[6:]
        self._closure_env = {}
        self._ln_cache = {}
        self._solve()

    # ------------------------------------------------------------------ solving
    def _solve(self):
        # phase 1: stabilise class sets / freshness (call resolution gets narrower as types are learnt, so the
        # effects collected meanwhile are discarded); phase 2: effects with the final types.
        self.iterations = 0
        for phase in (1, 2):
            for it in range(12):
                changed = False
                for q in self.p.functions:
                    if self._analyse(q):
                        changed = True
                self.iterations += 1
                if not changed:
                    break
            if phase == 1:
                for sm in self.sum.values():
                    sm.effects.clear(); sm.sites.clear(); sm.via.clear(); sm.retains.clear(); sm.calls.clear(); sm.unresolved.clear()
                    sm.ret_roots.clear(); sm.ret_elem_roots.clear(); sm.ret_fresh = True; sm.ret_hold = 99
                self.reflective.clear()

    # ------------------------------------------------------------------ per function
    def _analyse(self, q) -> bool:
        fi = self.p.functions[q]
        fnode = fi.node
        s = self.sum[q]
        before = (len(s.effects), len(s.retains), len(s.ret_roots) + len(s.ret_elem_roots) + s.ret_hold, s.ret_fresh, len(s.ret_types), sum(len(v) for v in self.param_types[q].values()), len(s.calls))
        params = self._params(fi)
        roots: Dict[str, Set[str]] = {p: {p} for p in params}
        for p in params:
            roots["__e__" + p] = {p}
            roots["__h__" + p] = {1}
        types: Dict[str, Set[str]] = {}
        if fi.cls and params and not fi.is_static:
            types[params[0]] = {fi.cls}
            roots[params[0]] = {"self"}
            roots["__e__" + params[0]] = {"self"}
        for p, ts in self.param_types[q].items():
            types.setdefault(p, set()).update(ts)
        if not isinstance(fnode, ast.Lambda):
            for va in (fnode.args.vararg, fnode.args.kwarg):
                if va is not None:
                    types[va.arg] = {EXT}
        # closure variables: inherit roots/types from the enclosing function (its final environment)
        outer = self._closure_env.get(fi.parent, ({}, {})) if fi.parent else ({}, {})
        for n, r in outer[0].items():
            roots.setdefault(n, set(r))
        for n, t in outer[1].items():
            types.setdefault(n, set(t))
        self._cur = [q, fi, roots, types, s]
        if isinstance(fnode, ast.Lambda):
            self._visit_expr(fnode.body)
        else:
            self._exec_block(fnode.body)
        q, fi, roots, types, s = self._cur
        self._closure_env[q] = ({k: set(v) for k, v in roots.items()}, {k: set(v) for k, v in types.items()})
        after = (len(s.effects), len(s.retains), len(s.ret_roots) + len(s.ret_elem_roots) + s.ret_hold, s.ret_fresh, len(s.ret_types), sum(len(v) for v in self.param_types[q].values()), len(s.calls))
        return before != after

    # ------------------------------------------------------------------ flow-sensitive traversal
    def _snapshot(self):
        return ({k: set(v) for k, v in self._cur[2].items()}, {k: set(v) for k, v in self._cur[3].items()})

    def _restore(self, snap):
        self._cur[2], self._cur[3] = ({k: set(v) for k, v in snap[0].items()}, {k: set(v) for k, v in snap[1].items()})

    def _merge(self, snaps):
        roots, types = {}, {}
        for r, t in snaps:
            for k, v in r.items():
                roots.setdefault(k, set()).update(v)
            for k, v in t.items():
                types.setdefault(k, set()).update(v)
        self._cur[2], self._cur[3] = roots, types

    def _exec_block(self, stmts):
        for st in stmts:
            self._exec(st)

    def _visit_expr(self, e):
        if e is None:
            return
        # comprehension / lambda variables first (weak)
        for n in ast.walk(e):
            if isinstance(n, ast.comprehension):
                self._bind_target(n.target, self._iter_binding(n.iter)[0], self._elem_types(n.iter), False, self._iter_binding(n.iter)[1], self._iter_binding(n.iter)[2])
            elif isinstance(n, ast.Lambda):
                for a in n.args.args:
                    self._cur[2].setdefault(a.arg, set())
        for n in ast.walk(e):
            self._visit_effects(n)

    def _exec(self, st):
        q, fi, roots, types, s = self._cur
        if isinstance(st, (ast.FunctionDef, ast.AsyncFunctionDef, ast.ClassDef)):
            return
        if isinstance(st, (ast.Assign, ast.AugAssign, ast.AnnAssign, ast.Delete)):
            self._visit_effects(st)
            for e in ([st.value] if getattr(st, "value", None) is not None else []):
                self._visit_expr(e)
            tg = st.targets if isinstance(st, (ast.Assign, ast.Delete)) else [st.target]
            for t in tg:
                for sub in ast.walk(t):
                    if sub is not t and isinstance(sub, (ast.Call, ast.Subscript, ast.Attribute)) and isinstance(getattr(sub, "ctx", ast.Load()), ast.Load):
                        self._visit_effects(sub)
            if isinstance(st, ast.Assign):
                vr, vt = self.roots_of(st.value), self.types_of(st.value)
                ve = self.elem_roots_of(st.value)
                et = self._elem_types(st.value)
                for t in st.targets:
                    self._bind_target(t, vr, vt, True, ve, self.hold_of(st.value))
                    if isinstance(t, ast.Name) and isinstance(st.value, ast.Call):
                        self._record_ref_fields(t.id, st.value)
                    if isinstance(t, ast.Name) and et:
                        self._cur[3]["__elem__" + t.id] = set(et)
            elif isinstance(st, ast.AnnAssign) and st.value is not None:
                self._bind_target(st.target, self.roots_of(st.value), self.types_of(st.value), True, self.elem_roots_of(st.value), self.hold_of(st.value))
            return
        if isinstance(st, ast.Return):
            self._visit_expr(st.value)
            if st.value is not None:
                rr = self.roots_of(st.value)
                if rr:
                    s.ret_roots |= rr
                    s.ret_fresh = False
                er = self.elem_roots_of(st.value)
                if er:
                    s.ret_elem_roots |= er
                    s.ret_hold = min(s.ret_hold, self.hold_of(st.value))
                s.ret_types |= self.types_of(st.value)
            return
        if isinstance(st, (ast.Expr, ast.Raise, ast.Assert)):
            for e in ast.iter_child_nodes(st):
                if isinstance(e, ast.expr):
                    self._visit_expr(e)
            return
        if isinstance(st, ast.If):
            self._visit_expr(st.test)
            self._narrow(st.test)
            snap = self._snapshot()
            self._exec_block(st.body)
            a = self._snapshot()
            self._restore(snap)
            self._exec_block(st.orelse)
            b = self._snapshot()
            self._merge([a, b])
            return
        if isinstance(st, (ast.For, ast.AsyncFor, ast.While)):
            if isinstance(st, ast.While):
                self._visit_expr(st.test)
            else:
                self._visit_expr(st.iter)
            entry = self._snapshot()
            for _ in range(2):
                if not isinstance(st, ast.While):
                    self._bind_target(st.target, self._iter_binding(st.iter)[0], self._elem_types(st.iter), False, self._iter_binding(st.iter)[1], self._iter_binding(st.iter)[2])
                self._exec_block(st.body)
                self._merge([entry, self._snapshot()])
            self._exec_block(st.orelse)
            return
        if isinstance(st, (ast.With, ast.AsyncWith)):
            for i in st.items:
                self._visit_expr(i.context_expr)
                if i.optional_vars is not None:
                    self._bind_target(i.optional_vars, self.roots_of(i.context_expr), self.types_of(i.context_expr), True, self.elem_roots_of(i.context_expr))
            self._exec_block(st.body)
            return
        if isinstance(st, ast.Try):
            entry = self._snapshot()
            self._exec_block(st.body)
            body = self._snapshot()
            outs = [body]
            for h in st.handlers:
                self._merge([entry, body])
                self._exec_block(h.body)
                outs.append(self._snapshot())
            self._restore(body)
            self._exec_block(st.orelse)
            outs[0] = self._snapshot()
            self._merge(outs)
            self._exec_block(st.finalbody)
            return
        for e in ast.iter_child_nodes(st):
            if isinstance(e, ast.expr):
                self._visit_expr(e)

    def _ln(self, fi):
        r = self._ln_cache.get(fi.qual)
        if r is None:
            r = self._ln_cache[fi.qual] = _local_names(fi.node) if not isinstance(fi.node, ast.Lambda) else {a.arg for a in fi.node.args.args}
        return r

    def _params(self, fi):
        a = fi.node.args
        ps = [x.arg for x in a.posonlyargs + a.args + a.kwonlyargs]
        if a.vararg:
            ps.append(a.vararg.arg)
        if a.kwarg:
            ps.append(a.kwarg.arg)
        return ps

    # ------------------------------------------------------------------ roots and types of expressions
    def roots_of(self, e) -> Set[str]:
        q, fi, roots, types, s = self._cur
        if e is None:
            return set()
        if not isinstance(e, ast.Name):
            ts = self.types_of(e)
            if ts and all(t == IMM or t in IMMUTABLE for t in ts):
                return set()  # immutable values cannot be mutated through: no origin to track
        elif e.id in types and types[e.id] and all(t == IMM or t in IMMUTABLE for t in types[e.id]):
            return set()
        if isinstance(e, ast.Name):
            if e.id in roots:
                return set(roots[e.id])
            if e.id in self._ln(fi):
                return set()
            r = self.p.resolve_name(fi.module, e.id)
            if r and r[0] == "var":
                return {"global:%s.%s" % (r[1], r[2])}
            return set()
        if isinstance(e, (ast.Attribute, ast.Subscript, ast.Starred)):
            if isinstance(e, ast.Attribute) and e.attr in REF_FIELDS:
                if isinstance(e.value, ast.Name) and ("__r__%s__%s" % (e.value.id, e.attr)) in roots:
                    return set(roots["__r__%s__%s" % (e.value.id, e.attr)])
                return {hop(r, e.attr) for r in self.roots_of(e.value)}
            if isinstance(e, ast.Attribute):
                ts = self.types_of(e.value)
                # a property returning a fresh object
                getters = self._getters(e.attr, ts)
                if getters and all(self.sum[g].ret_fresh for g in getters):
                    return set()
            if isinstance(e, ast.Subscript):
                return self.roots_of(e.value) | (self.elem_roots_of(e.value) if self.hold_of(e.value) <= 1 else set())
            return self.roots_of(e.value)
        if isinstance(e, ast.Call):
            return self._call_result_roots(e)
        if isinstance(e, ast.IfExp):
            return self.roots_of(e.body) | self.roots_of(e.orelse)
        if isinstance(e, ast.BoolOp):
            out = set()
            for v in e.values:
                out |= self.roots_of(v)
            return out
        if isinstance(e, (ast.NamedExpr,)):
            return self.roots_of(e.value)
        if isinstance(e, ast.Lambda):
            return set()
        return set()  # literals, comprehensions, binops: fresh containers / immutable values

    def hold_of(self, e) -> int:
        """Subscript depth at which derived *objects* sit inside the value (1 = its direct elements;
        99 = none: a fresh container of fresh containers)."""
        q, fi, roots, types, s = self._cur
        if isinstance(e, ast.Name):
            h = roots.get("__h__" + e.id)
            return min(h) if h else 1
        if isinstance(e, ast.Subscript):
            return max(self.hold_of(e.value) - 1, 1)
        if isinstance(e, ast.Starred):
            return self.hold_of(e.value)
        if isinstance(e, (ast.List, ast.Tuple, ast.Set, ast.Dict)):
            elts = e.values if isinstance(e, ast.Dict) else e.elts
            h = 99
            for x in elts:
                if x is None:
                    continue
                if self.roots_of(x):
                    h = min(h, 1)
                elif self.elem_roots_of(x):
                    h = min(h, 1 + self.hold_of(x))
            return h
        if isinstance(e, (ast.ListComp, ast.SetComp, ast.GeneratorExp, ast.DictComp)):
            elt = e.value if isinstance(e, ast.DictComp) else e.elt
            pieces = elt.elts if isinstance(elt, ast.Tuple) else [elt]
            h = 99
            for x in pieces:
                if self.roots_of(x):
                    h = min(h, 1)
                elif self.elem_roots_of(x):
                    h = min(h, 1 + self.hold_of(x))
            return h
        if isinstance(e, ast.Call):
            d = dotted(e.func) or ""
            last = d.rsplit(".", 1)[-1]
            if isinstance(e.func, ast.Attribute) and last in ("values", "items", "keys", "copy"):
                return self.hold_of(e.func.value)
            if isinstance(e.func, ast.Attribute) and last in ("get", "pop", "setdefault"):
                return max(self.hold_of(e.func.value) - 1, 1)
            if last in FRESH_CALLS or last in ("filter", "map", "chain", "reversed", "iter", "zip", "enumerate"):
                hs = [self.hold_of(a) for a in e.args if self.roots_of(a) or self.elem_roots_of(a)]
                return min(hs) if hs else 99
            callees, builtin, ctor = self.resolve_call(e)
            if callees and not ctor:
                return min(self.sum[c].ret_hold for c in callees)
            return 1
        if isinstance(e, ast.IfExp):
            return min(self.hold_of(e.body), self.hold_of(e.orelse))
        return 1

    def elem_roots_of(self, e) -> Set[str]:
        """Roots the *contents* of the value may derive from (a fresh list of a document's records is a new
        object whose elements belong to the document)."""
        q, fi, roots, types, s = self._cur
        if e is None:
            return set()
        if isinstance(e, ast.Name):
            return set(roots.get("__e__" + e.id, set()))
        if isinstance(e, ast.Starred):
            return self.elem_roots_of(e.value)
        if isinstance(e, (ast.Attribute, ast.Subscript)):
            return self.elem_roots_of(e.value) if isinstance(e, ast.Subscript) else set()
        if isinstance(e, (ast.List, ast.Tuple, ast.Set)):
            out = set()
            for x in e.elts:
                out |= self.roots_of(x) | self.elem_roots_of(x)
            return out
        if isinstance(e, ast.Dict):
            out = set()
            for x in e.values:
                out |= self.roots_of(x) | self.elem_roots_of(x)
            return out
        if isinstance(e, (ast.ListComp, ast.SetComp, ast.GeneratorExp)):
            pieces = e.elt.elts if isinstance(e.elt, ast.Tuple) else [e.elt]
            out = set()
            for x in pieces:
                out |= self.roots_of(x) | self.elem_roots_of(x)
            return out
        if isinstance(e, ast.DictComp):
            return self.roots_of(e.value) | self.elem_roots_of(e.value)
        if isinstance(e, ast.IfExp):
            return self.elem_roots_of(e.body) | self.elem_roots_of(e.orelse)
        if isinstance(e, ast.BoolOp):
            out = set()
            for v in e.values:
                out |= self.elem_roots_of(v)
            return out
        if isinstance(e, ast.BinOp):
            return self.elem_roots_of(e.left) | self.elem_roots_of(e.right)
        if isinstance(e, ast.Call):
            d = dotted(e.func) or ""
            last = d.rsplit(".", 1)[-1]
            callees, builtin, ctor = self.resolve_call(e)
            if ctor:
                return set()
            if callees:
                out = set()
                recv = e.func.value if isinstance(e.func, ast.Attribute) else None
                for c in callees:
                    cf = self.p.functions[c]
                    am = dict(self._arg_map(e, cf, self._params(cf)))
                    if recv is not None:
                        am.setdefault("self", recv)
                    for rr in self.sum[c].ret_elem_roots:
                        out |= self._map_root(rr, c, am, recv, False)
                return out
            if last in FRESH_CALLS or last in ("filter", "map", "chain", "reversed", "iter", "zip", "enumerate", "first", "next"):
                out = set()
                for a in e.args:
                    out |= self.roots_of(a) | self.elem_roots_of(a)
                return out
            if isinstance(e.func, ast.Attribute) and last in ("values", "items", "keys", "get", "pop", "copy", "setdefault"):
                return self.roots_of(e.func.value) | self.elem_roots_of(e.func.value)
            return set()
        return set()

    def types_of(self, e) -> Set[str]:
        q, fi, roots, types, s = self._cur
        if isinstance(e, ast.Name):
            if e.id in types:
                return set(types[e.id])
            if e.id == "self" and fi.cls:
                return {fi.cls}
            r = self.p.resolve_name(fi.module, e.id) if e.id not in self._ln(fi) else None
            if r and r[0] == "ext":
                return {EXT}
            return set()
        if isinstance(e, (ast.Constant, ast.JoinedStr, ast.Compare)):
            return {IMM}
        if isinstance(e, ast.BinOp):
            return {IMM} if isinstance(e.op, ast.Mod) or self.types_of(e.left) == {IMM} else {EXT}
        if isinstance(e, (ast.List, ast.Dict, ast.Set, ast.Tuple, ast.ListComp, ast.DictComp, ast.SetComp, ast.GeneratorExp)):
            return {EXT}
        if isinstance(e, ast.Attribute) and e.attr in IMM_ATTRS:
            return {IMM}
        if isinstance(e, ast.Call) and ((isinstance(e.func, ast.Name) and e.func.id in IMM_CALLS) or (isinstance(e.func, ast.Attribute) and e.func.attr in IMM_CALLS and not self.method_index.get(e.func.attr))):
            return {IMM}
        if isinstance(e, ast.Attribute):
            if e.attr in self.field_elem_types:
                return set(self.field_elem_types[e.attr])
            ts = self.types_of(e.value)
            getters = self._getters(e.attr, ts)
            if getters:
                out = set()
                for g in getters:
                    out |= self.sum[g].ret_types
                return out
            if ts and ts <= {EXT, IMM}:
                return {EXT}
            return set()
        if isinstance(e, ast.Subscript):
            if isinstance(e.value, ast.Attribute) and e.value.attr in self.field_elem_types and e.value.attr not in ("_default", "namespace", "_namespace", "_namespaces"):
                return set(self.field_elem_types[e.value.attr])
            ts = self.types_of(e.value)
            if ts == {"prov.identifier.Namespace"}:
                return {"prov.identifier.QualifiedName"}
            if ts and all(t in self.p.classes and NSM in self.p.mro(t) for t in ts):
                return {"prov.identifier.Namespace"}
            if isinstance(e.value, ast.Name) and ("__elem__" + e.value.id) in types:
                return set(types["__elem__" + e.value.id])
            return {EXT} if ts and ts <= {EXT, IMM} else set()
        if isinstance(e, ast.Call):
            callees, builtin, ctor = self.resolve_call(e)
            if ctor:
                return set(ctor)
            out = set()
            for c in callees:
                out |= self.sum[c].ret_types
            if not callees:
                d = dotted(e.func) or ""
                if builtin or d.split(".")[0] in ("io", "json", "etree", "os", "tempfile", "shutil", "pydot", "nx", "dateutil", "itertools", "base64", "str", "list", "dict", "set", "tuple", "sorted", "URIRef", "BNode", "RDFLiteral", "ConjunctiveGraph", "defaultdict", "OrderedDict", "filter", "map", "zip"):
                    return {EXT}
                r = self.p.resolve_dotted(fi.module, e.func)
                if r and r[0] == "ext":
                    return {EXT}
                if isinstance(e.func, ast.Attribute) and (self.types_of(e.func.value) or {0}) <= {EXT, IMM}:
                    return {EXT}
            return out
        if isinstance(e, ast.IfExp):
            return self.types_of(e.body) | self.types_of(e.orelse)
        return set()

    def _getters(self, name, recv_types) -> List[str]:
        gs = self.properties.get(name, [])
        if not gs:
            return []
        known = {t for t in recv_types if t not in (EXT, IMM)}
        if recv_types and recv_types <= {EXT, IMM}:
            return []
        if known:
            out = []
            for t in known:
                if t in self.p.classes:
                    mq = self.p.lookup_method(t, name)
                    if mq and mq in gs:
                        out.append(mq)
                    for sub in self.p.subclasses(t):
                        mq2 = self.p.classes[sub].methods.get(name)
                        if mq2 and mq2 in gs and mq2 not in out:
                            out.append(mq2)
            return out
        return list(gs)

    # ------------------------------------------------------------------ binding pass (roots/types of locals)
    def _bind_target(self, tgt, value_roots, value_types, strong, value_elems=frozenset(), hold=1):
        q, fi, roots, types, s = self._cur
        if isinstance(tgt, ast.Name):
            if strong:
                roots[tgt.id] = set(value_roots)
                roots["__e__" + tgt.id] = set(value_elems)
                roots["__h__" + tgt.id] = {hold}
                types[tgt.id] = set(value_types)
            else:
                roots.setdefault(tgt.id, set()).update(value_roots)
                roots.setdefault("__e__" + tgt.id, set()).update(value_elems)
                roots.setdefault("__h__" + tgt.id, set()).add(hold)
                types.setdefault(tgt.id, set()).update(value_types)
        elif isinstance(tgt, (ast.Tuple, ast.List)):
            for e in tgt.elts:
                # unpacking is transparent: each piece is treated like the value itself
                self._bind_target(e, set(value_roots), set(), strong, value_elems, hold)
        elif isinstance(tgt, ast.Starred):
            self._bind_target(tgt.value, value_roots, set(), strong, value_elems, hold)

    def _record_ref_fields(self, var, call):
        """x = C(..., document=d): remember that x.<ref field> is d (REF fields alias constructor arguments)."""
        callees, builtin, ctor = self.resolve_call(call)
        env = self._cur[2]
        for k in [k for k in env if k.startswith("__r__%s__" % var)]:
            del env[k]
        if not ctor:
            return
        for c in callees:
            cf = self.p.functions[c]
            amap = self._arg_map(call, cf, self._params(cf))
            for cls in ctor:
                for c2 in (self.p.mro(cls) if cls in self.p.classes else []):
                    for (oc, fld), par in self.ref_alias.items():
                        if oc == c2 and par in amap:
                            env.setdefault("__r__%s__%s" % (var, fld), set()).update(self.roots_of(amap[par]))

    def _iter_binding(self, it):
        h = self.hold_of(it)
        er = self.elem_roots_of(it)
        return self.roots_of(it) | (er if h <= 1 else set()), er, max(h - 1, 1)

    def _narrow(self, test):
        """isinstance(x, C) guards add C to x's class set (flow-insensitively: only used to resolve calls)."""
        q, fi, roots, types, s = self._cur
        for c in ast.walk(test):
            if isinstance(c, ast.Call) and isinstance(c.func, ast.Name) and c.func.id == "isinstance" and len(c.args) == 2 and isinstance(c.args[0], ast.Name):
                elts = c.args[1].elts if isinstance(c.args[1], ast.Tuple) else [c.args[1]]
                for e in elts:
                    r = self.p.resolve_dotted(fi.module, e)
                    if r and r[0] == "class":
                        types.setdefault(c.args[0].id, set()).add(r[1])

    def _elem_types(self, it) -> Set[str]:
        # for x in obj.get_records() / obj.records / obj.bundles / obj._records
        if isinstance(it, ast.Call):
            n = it.func.attr if isinstance(it.func, ast.Attribute) else (it.func.id if isinstance(it.func, ast.Name) else "")
            if n in ("get_records", "_unified_records"):
                return {M + ".ProvRecord"}
            if n in ("values", "items") and isinstance(it.func, ast.Attribute) and isinstance(it.func.value, ast.Attribute) and it.func.value.attr in self.field_elem_types:
                return set(self.field_elem_types[it.func.value.attr])
            if n in ("chain", "list", "sorted", "reversed", "iter", "set", "tuple") and it.args:
                out = set()
                for a in it.args:
                    out |= self._elem_types(a.value if isinstance(a, ast.Starred) else a)
                return out
            return set()
        if isinstance(it, ast.Attribute):
            if it.attr in ("records", "_records"):
                return {M + ".ProvRecord"}
            if it.attr in ("bundles",):
                return {M + ".ProvBundle"}
        if isinstance(it, ast.Subscript):
            return self._elem_types(it.value)
        if isinstance(it, ast.Name):
            # list of records held in a local: look for its defining comprehension / call
            return set(self._cur[3].get("__elem__" + it.id, set()))
        if isinstance(it, (ast.ListComp, ast.GeneratorExp)):
            return self.types_of(it.elt)
        return set()

    # ------------------------------------------------------------------ call resolution
    def resolve_call(self, call: ast.Call):
        """-> (callee quals, is_builtin_or_external, constructed classes)"""
        q, fi, roots, types, s = self._cur
        f = call.func
        if isinstance(f, ast.Name):
            # nested function / closure
            cur = q
            while cur:
                cand = "%s.<locals>.%s" % (cur, f.id)
                if cand in self.p.functions:
                    return [cand], False, set()
                cur = self.p.functions[cur].parent
            if f.id in self._ln(fi) or f.id in roots:
                from .mutation import single_assignment

                d = single_assignment(fi.node, f.id) if not isinstance(fi.node, ast.Lambda) else None
                if isinstance(d, ast.Subscript):
                    return self.resolve_call(ast.Call(func=d, args=call.args, keywords=call.keywords))
                return [], True, set()  # calling a local callable (lambda / parameter)
            r = self.p.resolve_name(fi.module, f.id)
            if r is None:
                return [], True, set()
            if r[0] == "func":
                return [r[1]], False, set()
            if r[0] == "class":
                init = self.p.lookup_method(r[1], "__init__")
                return ([init] if init else []), False, {r[1]}
            return [], True, set()
        if isinstance(f, ast.Subscript):
            # reflective: TABLE[key](...) -> constructors in the folded table
            try:
                t = self.ctx.eval_in(q, f.value)
            except AnalysisError:
                t = None
            if isinstance(t, dict) and t and all(isinstance(v, ClassRef) for v in t.values()):
                quals = sorted({v.qual for v in t.values()})
                inits = [self.p.lookup_method(c, "__init__") for c in quals]
                self._note_reflective("%s: %s -> %d classes" % (q, norm(f), len(quals)))
                return [i for i in inits if i], False, set(quals)
            return [], True, set()
        if isinstance(f, ast.Call):
            # serializers.get(format)(doc): constructor of a registered serializer
            if isinstance(f.func, ast.Attribute) and f.func.attr == "get" and "serializers" in norm(f.func.value):
                reg = self.ctx.registry_table()
                if isinstance(reg, dict):
                    quals = sorted({v.qual for v in reg.values() if isinstance(v, ClassRef)})
                    inits = [self.p.lookup_method(c, "__init__") for c in quals]
                    self._note_reflective("%s: %s -> %d serializer classes" % (q, norm(f), len(quals)))
                    return [i for i in inits if i], False, set(quals)
            if isinstance(f.func, ast.Name) and f.func.id == "getattr" and len(f.args) == 2:
                try:
                    key = f.args[1]
                    tab = self.ctx.eval_in(q, key.value) if isinstance(key, ast.Subscript) else None
                except AnalysisError:
                    tab = None
                if isinstance(tab, dict) and all(isinstance(v, str) for v in tab.values()):
                    names = sorted(set(tab.values()))
                    out = []
                    for nme in names:
                        out += self.method_index.get(nme, [])
                    self._note_reflective("%s: %s -> %d factory names" % (q, norm(f), len(names)))
                    return out, False, set()
                return [], True, set()
            return [], True, set()
        if isinstance(f, ast.Attribute):
            name = f.attr
            # super().m / super(C, self).m
            if isinstance(f.value, ast.Call) and isinstance(f.value.func, ast.Name) and f.value.func.id == "super" and fi.cls:
                mro = self.p.mro(fi.cls)
                for c in mro[1:]:
                    mq = self.p.classes[c].methods.get(name)
                    if mq:
                        return [mq], False, set()
                return [], True, set()
            # Class.m(self, ...)   /   module.func(...)   /   module.Class(...)
            r = self.p.resolve_dotted(fi.module, f) if dotted(f) and dotted(f).split(".")[0] not in self._ln(fi) and dotted(f).split(".")[0] != "self" else None
            if r is not None:
                if r[0] == "func":
                    return [r[1]], False, set()
                if r[0] == "class":
                    init = self.p.lookup_method(r[1], "__init__")
                    return ([init] if init else []), False, {r[1]}
                if r[0] == "classattr":
                    mq = self.p.lookup_method(r[1], r[2]) if "." not in r[2] else None
                    if mq:
                        return [mq], False, set()
                if r[0] == "ext":
                    if r[1] in ("json.dump", "json.dumps", "json.load", "json.loads"):
                        for kw in call.keywords:
                            if kw.arg == "cls":
                                cr = self.p.resolve_dotted(fi.module, kw.value)
                                if cr and cr[0] == "class":
                                    m = "default" if "dump" in r[1] else "decode"
                                    mq = self.p.lookup_method(cr[1], m)
                                    self._note_reflective("%s: %s(cls=%s) -> %s" % (q, r[1], cr[1], mq))
                                    return ([mq] if mq else []), False, set()
                    return [], True, set()
            ts = self.types_of(f.value)
            known = {t for t in ts if t in self.p.classes}
            if ts and ts <= {EXT, IMM}:
                return [], True, set()
            if known:
                out = []
                for t in known:
                    mq = self.p.lookup_method(t, name)
                    if mq and mq not in out:
                        out.append(mq)
                    for sub in self.p.subclasses(t):
                        m2 = self.p.classes[sub].methods.get(name)
                        if m2 and m2 not in out:
                            out.append(m2)
                    if not mq and name in MUTATORS | BUILTIN_READERS and self.p.ext_bases(t):
                        pass  # method of an external base (NamespaceManager -> dict.update): builtin on the receiver
                builtin = not out
                return out, builtin, set()
            # unknown receiver: class-hierarchy analysis by name, unless it is a plain builtin method name
            cands = [m for m in self.method_index.get(name, []) if not self.p.functions[m].is_property]
            if name in MUTATORS or name in BUILTIN_READERS:
                # ambiguous with builtin container / stream methods: keep both readings
                return cands, True, set()
            return cands, not cands, set()
        return [], True, set()

    def _note_reflective(self, s):
        if s not in self.reflective:
            self.reflective.append(s)

    def _call_result_roots(self, call: ast.Call) -> Set[str]:
        q, fi, roots, types, s = self._cur
        callees, builtin, ctor = self.resolve_call(call)
        d = dotted(call.func) or ""
        last = d.rsplit(".", 1)[-1]
        if ctor:
            return set()
        if last in FRESH_CALLS or last in PURE_BUILTINS or last in ("filter", "map", "chain", "first"):
            if last in ("filter", "map", "chain", "first", "iter", "next"):
                out = set()
                for a in call.args:
                    out |= self.roots_of(a.value if isinstance(a, ast.Starred) else a)
                return out
            return set()
        out = set()
        if callees:
            for c in callees:
                cs = self.sum[c]
                if cs.ret_fresh and not cs.ret_roots:
                    continue
                cf = self.p.functions[c]
                cparams = self._params(cf)
                amap = self._arg_map(call, cf, cparams)
                recv = call.func.value if isinstance(call.func, ast.Attribute) else None
                am = dict(amap)
                if recv is not None:
                    am.setdefault("self", recv)
                for rr in cs.ret_roots:
                    out |= self._map_root(rr, c, am, recv, False)
            return out
        # builtin / external method on a receiver: conservatively derived from the receiver (x.get(k), x.values(), x[k])
        if isinstance(call.func, ast.Attribute) and last in ("get", "values", "items", "keys", "pop", "setdefault", "__getitem__"):
            return self.roots_of(call.func.value)
        return set()

    def _arg_map(self, call, cf, cparams):
        amap = {}
        ps = list(cparams)
        if cf.cls and ps and not cf.is_static:
            # bound call: receiver is param 0 unless called as Class.m(self, ...)
            explicit_self = isinstance(call.func, ast.Attribute) and (self.p.resolve_dotted(self._cur[1].module, call.func.value) or (None,))[0] == "class"
            if not explicit_self:
                ps = ps[1:]
        for i, a in enumerate(call.args):
            if isinstance(a, ast.Starred):
                break
            if i < len(ps):
                amap[ps[i]] = a
        for k in call.keywords:
            if k.arg:
                amap[k.arg] = k.value
        return amap

    # ------------------------------------------------------------------ effects
    def _add(self, root, klass, detail, node, via=""):
        q, fi, roots, types, s = self._cur
        e = (root, klass, detail)
        if e not in s.effects:
            s.effects.add(e)
            s.sites[e] = (q, node)
            s.via[e] = via

    def _visit_effects(self, n):
        q, fi, roots, types, s = self._cur
        if isinstance(n, (ast.Assign, ast.AugAssign, ast.AnnAssign)):
            targets = n.targets if isinstance(n, ast.Assign) else [n.target]
            flat = []
            for t in targets:
                flat += list(t.elts) if isinstance(t, (ast.Tuple, ast.List)) else [t]
            value = getattr(n, "value", None)
            for t in flat:
                if isinstance(t, ast.Attribute):
                    self._store(t.value, t.attr, n, value, rebind=True)
                elif isinstance(t, ast.Subscript):
                    self._container_write(t.value, n, value, "setitem")
        elif isinstance(n, ast.Delete):
            for t in n.targets:
                if isinstance(t, ast.Subscript):
                    self._container_write(t.value, n, None, "delitem")
                elif isinstance(t, ast.Attribute):
                    self._store(t.value, t.attr, n, None, rebind=True)
        elif isinstance(n, ast.Call):
            self._call_effects(n)
        elif isinstance(n, ast.Subscript) and isinstance(n.ctx, ast.Load):
            # defaultdict read-insert
            if isinstance(n.value, ast.Attribute) and n.value.attr in self.defaultdict_fields:
                for r in self.roots_of(n.value.value) or set():
                    self._add(r, "EMPTY-INSERT", n.value.attr, n)
        elif isinstance(n, ast.Attribute) and isinstance(n.ctx, ast.Load):
            getters = self._getters(n.attr, self.types_of(n.value))
            for g in getters:
                self._propagate(g, {"self": n.value}, n, receiver=n.value)

    def _field_class(self, recv, fld):
        """Effect class of a store into field `fld` of the object denoted by recv."""
        ts = {t for t in self.types_of(recv) if t not in (EXT, IMM)}
        owners = self.field_classes.get(fld, set())
        for t in ts or owners:
            for c in (self.p.mro(t) if t in self.p.classes else []):
                if (c, fld) in MEMO_FIELDS:
                    return "MEMO"
        if not ts and owners and all((o, fld) in MEMO_FIELDS for o in owners):
            return "MEMO"
        if ts and all(any(c == NSM for c in self.p.mro(t)) for t in ts if t in self.p.classes) and any(t in self.p.classes for t in ts):
            return "NS"
        return field_effect_class(self.ctx, fld)

    def _store(self, recv, fld, node, value, rebind):
        q, fi, roots, types, s = self._cur
        rr = self.roots_of(recv)
        ts = self.types_of(recv)
        if ts and ts <= {EXT, IMM}:
            return
        in_init = fi.name == "__init__" and isinstance(recv, ast.Name) and recv.id == "self"
        for r in rr:
            if in_init:
                continue  # initialising one's own fields is construction, not mutation
            self._add(r, self._field_class(recv, fld), "%s = ..." % fld, node)
        if value is not None and self._is_mutable_value(value):
            # retention: a parameter object stored by reference into a field of another object
            for v in self.roots_of(value):
                if base_of(v) in self._params(fi) and base_of(v) != "self" and (rr - {v}):
                    s.retains.setdefault(v, "stored into %s.%s" % (norm(recv), fld))

    def _is_mutable_value(self, value) -> bool:
        ts = self.types_of(value)
        if ts and all(t in IMMUTABLE or t == IMM for t in ts):
            return False
        return True

    def _container_write(self, container, node, value, how):
        q, fi, roots, types, s = self._cur
        # find the field (if any) the container expression goes through
        fld = None
        cur = container
        recv = None
        while True:
            if isinstance(cur, ast.Attribute):
                fld, recv = cur.attr, cur.value
                break
            if isinstance(cur, ast.Subscript):
                cur = cur.value
                continue
            if isinstance(cur, ast.Call) and isinstance(cur.func, ast.Attribute) and cur.func.attr in ("get", "setdefault", "values"):
                cur = cur.func.value
                continue
            break
        ts = self.types_of(container)
        if fld is None and isinstance(cur, ast.Name) and cur.id != "self" and cur.id in self._cur[2]:
            # a local container: depth of the mutated object below the local
            d = 0
            c2 = container
            while c2 is not cur:
                d += 1
                c2 = c2.value if isinstance(c2, ast.Subscript) else c2.func.value
            env = self._cur[2]
            k, hk = "__e__" + cur.id, "__h__" + cur.id
            holds = min(env.get(hk) or {1})
            is_effect = bool(env.get(cur.id)) or (d >= holds and bool(env.get(k)))
            if value is not None:
                vr, ve = self.roots_of(value), self.elem_roots_of(value)
                env[k] = set(env.get(k, set())) | vr | ve
                if vr:
                    env[hk] = {min(holds, d + 1)}
                elif ve:
                    env[hk] = {min(holds, d + 1 + self.hold_of(value))}
                vt = self.types_of(value)
                if vt:
                    self._cur[3].setdefault("__elem__" + cur.id, set()).update(vt)
            if not is_effect:
                return
        for r in self.roots_of(container):
            if fld is not None:
                klass = self._field_class(recv, fld)
            elif isinstance(cur, ast.Name) and cur.id == "self" and fi.cls and NSM in self.p.mro(fi.cls):
                klass = "NS"
            elif r.startswith("global:"):
                klass = "GLOBAL-TABLE"
            else:
                ct = {t for t in ts if t in self.p.classes}
                klass = "NS" if ct and all(NSM in self.p.mro(t) for t in ct) else "OTHER"
            if r.startswith("global:") and klass == "OTHER":
                klass = "GLOBAL-TABLE"
            self._add(r, klass, "%s %s" % (how, norm(container)[:50]), node)
        if value is not None and self._is_mutable_value(value):
            for v in self.roots_of(value):
                if base_of(v) in self._params(fi) and base_of(v) != "self" and self.roots_of(container) - {v} and fld != "_attributes":
                    s.retains.setdefault(v, "stored into %s" % norm(container)[:50])

    def _call_effects(self, call: ast.Call):
        q, fi, roots, types, s = self._cur
        callees, builtin, ctor = self.resolve_call(call)
        name = call.func.attr if isinstance(call.func, ast.Attribute) else (call.func.id if isinstance(call.func, ast.Name) else "")
        for c in callees:
            s.calls.add(c)
            cf = self.p.functions[c]
            cparams = self._params(cf)
            amap = dict(self._arg_map(call, cf, cparams))
            recv = call.func.value if isinstance(call.func, ast.Attribute) else None
            if cf.cls and cparams and not cf.is_static:
                if ctor:
                    amap.pop(cparams[0], None)  # the object under construction is fresh
                elif recv is not None and cparams[0] not in amap:
                    amap["self"] = recv
                    if (self.p.resolve_dotted(fi.module, recv) or (None,))[0] == "class" and call.args:
                        amap["self"] = call.args[0]
            self._propagate(c, amap, call, receiver=recv, ctor=bool(ctor))
            # 0-CFA: actual class sets flow into the callee's formals
            for pname, actual in amap.items():
                if pname == "self":
                    continue
                ts = self.types_of(actual)
                if ts:
                    self.param_types[c].setdefault(pname, set()).update(t for t in ts)
        if builtin and isinstance(call.func, ast.Attribute) and name in MUTATORS:
            recv = call.func.value
            ts = self.types_of(recv)
            known = {t for t in ts if t in self.p.classes}
            # a repository class that defines the method itself was handled above; dict/list mutators otherwise
            if not known or any(self.p.lookup_method(t, name) is None for t in known):
                self._container_write(recv, call, call.args[0] if call.args and name in ("append", "add", "insert", "extend", "update", "setdefault") else None, "call:" + name)
        if not callees and not builtin:
            s.unresolved.append("%s: %s" % (q, norm(call.func)))

    def _map_root(self, root, callee, amap, receiver, ctor) -> Set[str]:
        """Caller-side roots denoted by a callee-side root (with REF hops)."""
        parts = root.split(HOP)
        base, hops = parts[0], parts[1:]
        if base.startswith("global:"):
            return {root}
        if base == "self":
            if ctor:
                if not hops:
                    return set()
                # the new object's REF field is whatever was passed for the __init__ parameter stored there
                cf = self.p.functions[callee]
                par = None
                for c in (self.p.mro(cf.cls) if cf.cls else []):
                    par = par or self.ref_alias.get((c, hops[0]))
                if par is None or par not in amap:
                    return set()
                rs = self.roots_of(amap[par])
                hops = hops[1:]
            else:
                actual = amap.get("self", receiver)
                if actual is None:
                    return set()
                key = "__r__%s__%s" % (actual.id, hops[0]) if hops and isinstance(actual, ast.Name) else None
                if key and key in self._cur[2]:
                    rs = set(self._cur[2][key])
                    hops = hops[1:]
                else:
                    rs = self.roots_of(actual)
        else:
            actual = amap.get(base)
            if actual is None:
                # a nested function's effect on a free variable is an effect on the enclosing function's variable
                cf = self.p.functions.get(callee)
                encl = self._cur[0]
                if cf is None or "<locals>" not in callee or base in self._params(cf) or not (callee.startswith(encl + ".<locals>.") or callee.rsplit(".<locals>.", 1)[0] == encl.rsplit(".<locals>.", 1)[0]):
                    return set()
                actual = ast.copy_location(ast.Name(id=base, ctx=ast.Load()), cf.node)
            rs = self.roots_of(actual)
        for h in hops:
            rs = {hop(r, h) for r in rs}
        return rs

    def _propagate(self, callee, amap, node, receiver=None, ctor=False):
        q, fi, roots, types, s = self._cur
        cs = self.sum[callee]
        for (root, klass, detail) in list(cs.effects):
            if klass == "NS" and callee.endswith("NamespaceManager.valid_qualified_name"):
                klass = "NS-RESOLVE"
            for r in self._map_root(root, callee, amap, receiver, ctor):
                self._add(r, klass, detail, node, via=callee)
        for pname, how in cs.retains.items():
            actual = amap.get(pname)
            if actual is None or ctor:
                continue  # retained by a fresh object: an alias only if that object is returned (ret_roots)
            holder = amap.get("self", receiver)
            holder_roots = self.roots_of(holder) if holder is not None else set()
            for v in self.roots_of(actual):
                if base_of(v) in self._params(fi) and base_of(v) != "self" and (holder_roots - {v}):
                    s.retains.setdefault(v, "%s (via %s)" % (how.split(" (via")[0], ".".join(callee.rsplit(".", 2)[-2:])))

    # ------------------------------------------------------------------ queries
    def closure(self, entry: str) -> Set[str]:
        seen, stack = set(), [entry]
        while stack:
            f = stack.pop()
            if f in seen:
                continue
            seen.add(f)
            stack.extend(self.sum[f].calls)
            stack.extend(self.p.nested_functions(f))
        return seen

    def effects_of(self, qual: str, roots=None, classes=None):
        out = []
        for e in self.sum[qual].effects:
            if roots is not None and e[0] not in roots:
                continue
            if classes is not None and e[1] not in classes:
                continue
            out.append(e)
        return sorted(out)

    def explain(self, qual: str, e, depth=0) -> List[str]:
        """Call chain from `qual` to a direct site of effect e."""
        s = self.sum[qual]
        fq, node = s.sites.get(e, (qual, None))
        line = getattr(node, "lineno", 0)
        here = "%s:%d %s" % (self.p.unit_of(fq).relpath, line, norm(node)[:80] if node is not None else "")
        via = s.via.get(e, "")
        if via and depth < 8:
            # find the matching effect in the callee
            for ce in self.sum[via].effects:
                if ce[1] in (e[1], "NS") and ce[2] == e[2]:
                    return [here] + self.explain(via, ce, depth + 1)
        return [here]


def _leaf_site(self, qual: str, e, depth=0):
    """(function qualname, node) of the direct site of effect e, following the same chain as explain()."""
    s = self.sum[qual]
    fq, node = s.sites.get(e, (qual, None))
    via = s.via.get(e, "")
    if via and depth < 8:
        for ce in self.sum[via].effects:
            if ce[1] in (e[1], "NS") and ce[2] == e[2]:
                return _leaf_site(self, via, ce, depth + 1)
    return fq, node


Effects.leaf_site = _leaf_site


def get_effects(ctx: Ctx) -> Effects:
    if "effects" not in ctx._cache:
        ctx._cache["effects"] = Effects(ctx)
    return ctx._cache["effects"]
